#!/usr/bin/env python3
"""Independently confirm a seeded change: in a fresh scratch worktree of /repo,
demo passes without the patch, the patch applies, the unedited suite passes with
it, and the demo fails with it.  Prints a JSON record; removes the worktree."""
import json, os, subprocess, sys, tempfile, shutil

d = os.path.abspath(sys.argv[1])
wt = tempfile.mkdtemp(prefix="optyx_vs_")
os.rmdir(wt)
rec = {"dir": d}
def run(cmd, **kw):
    return subprocess.run(cmd, shell=True, capture_output=True, text=True, **kw)
try:
    r = run(f"git -C /repo worktree add -q --detach {wt} HEAD")
    assert r.returncode == 0, r.stderr
    env = dict(os.environ, PYTHONPATH=f"{wt}/src")
    r = run(f"/venv/bin/python {d}/demo.py", cwd=wt, env=env)
    rec["demo_clean_rc"] = r.returncode
    r = run(f"git apply --whitespace=nowarn {d}/patch.diff", cwd=wt)
    if r.returncode != 0:
        r = run(f"patch -p1 -F3 -s < {d}/patch.diff", cwd=wt)
        rec["applied_with_fuzz"] = True
    rec["applies"] = r.returncode == 0
    r = run("/venv/bin/python -m pytest -q -p no:cacheprovider --deselect 'tests/test_vector_gradients.py::TestGradientComplexity::test_quadratic_form_constant_time' 2>&1 | tail -1", cwd=wt, env=env)
    rec["suite"] = r.stdout.strip()
    r = run(f"/venv/bin/python {d}/demo.py", cwd=wt, env=env)
    rec["demo_patched_rc"] = r.returncode
    rec["demo_patched_tail"] = r.stdout.strip().splitlines()[-3:]
    rec["confirmed"] = rec["demo_clean_rc"] == 0 and rec["applies"] and "failed" not in rec["suite"] and "passed" in rec["suite"] and rec["demo_patched_rc"] == 1
finally:
    run(f"git -C /repo worktree remove --force {wt}")
    shutil.rmtree(wt, ignore_errors=True)
print(json.dumps(rec, indent=1))
