#!/usr/bin/env python3
"""import_seeded.py SRC_DIR SEEDED_ID PROPERTY "what it needs to manifest" -- verify and file a seeded change."""
import json, os, shutil, subprocess, sys
src, sid, prop, needs = sys.argv[1:5]
V = os.path.dirname(os.path.dirname(os.path.abspath(__file__)))
dst = os.path.join(V, "seeded", sid)
os.makedirs(dst, exist_ok=True)
for f in ("patch.diff", "demo.py", "notes.md"):
    shutil.copy(os.path.join(src, f), os.path.join(dst, f))
rec = json.loads(subprocess.run([sys.executable, os.path.join(V, "selftest", "verify_seeded.py"), dst], capture_output=True, text=True).stdout)
meta = {"id": sid, "breaks_property": prop, "needs_to_manifest": needs,
        "origin": "independent sub-agent given only the property text (and a list of ideas already taken) and a scratch worktree",
        "confirmed_by_me": {"suite_with_patch": rec["suite"], "demo_without_patch_rc": rec["demo_clean_rc"], "demo_with_patch_rc": rec["demo_patched_rc"],
                            "confirmed": rec["confirmed"], "how": "selftest/verify_seeded.py in a fresh scratch worktree of /repo (removed afterwards)"},
        "checks_run": {}}
json.dump(meta, open(os.path.join(dst, "meta.json"), "w"), indent=1)
print(sid, "confirmed" if rec["confirmed"] else "NOT CONFIRMED", rec["suite"], rec["demo_clean_rc"], rec["demo_patched_rc"])
if not rec["confirmed"]:
    shutil.rmtree(dst)
