#!/usr/bin/env python3
"""Summarise the recorded verdicts of the seeded changes (seeded/*/meta.json) as a table."""
import json, os, sys
V = os.path.dirname(os.path.dirname(os.path.abspath(__file__)))
rows = []
for sid in sorted(s for s in os.listdir(os.path.join(V, "seeded")) if not s.startswith("_")):
    m = json.load(open(os.path.join(V, "seeded", sid, "meta.json")))
    v = m.get("checks_run", {})
    rows.append((sid, m["breaks_property"], " ".join(f"{p}:{r['verdict']}" for p, r in sorted(v.items()))))
for r in rows:
    print("| %s | %s | %s |" % r)
print(len(rows), "seeded changes;", sum("CAUGHT" in r[2] for r in rows), "caught by at least one recorded check run")
