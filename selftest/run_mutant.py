#!/usr/bin/env python3
"""Run checks against a patched scratch copy of /repo (never against /repo itself).

  run_mutant.py PATCH PROP [PROP...] [--tier quick] [--budget S]

Copies /repo/src to a scratch dir under /tmp, applies PATCH there, runs each
check with OPTYX_SRC pointing at the copy and VERIF_OUT_DIR redirected (so the
committed evidence is not overwritten), prints one line per check and removes
the scratch dir.  Exit 0 iff every listed check reported a VIOLATION (exit 1).
"""
import argparse, os, shutil, subprocess, sys, tempfile, time

ap = argparse.ArgumentParser()
ap.add_argument("patch")
ap.add_argument("props", nargs="+")
ap.add_argument("--tier", default="quick")
ap.add_argument("--budget", default=None)
ap.add_argument("--keep", action="store_true")
a = ap.parse_args()
V = os.path.dirname(os.path.dirname(os.path.abspath(__file__)))
tmp = tempfile.mkdtemp(prefix="optyx_mut_")
ok = True
try:
    shutil.copytree(os.environ.get("REPO_SRC", "/repo/src"), os.path.join(tmp, "src"))
    subprocess.run(["git", "init", "-q"], cwd=tmp, check=True)
    p = subprocess.run(["git", "apply", "--whitespace=nowarn", os.path.abspath(a.patch)], cwd=tmp, capture_output=True, text=True)
    if p.returncode != 0:
        # the tree has moved on since the patch was written (fix commits): allow some fuzz
        p = subprocess.run(f"patch -p1 -F3 -s < {os.path.abspath(a.patch)}", shell=True, cwd=tmp, capture_output=True, text=True)
    if p.returncode != 0:
        print("PATCH-DOES-NOT-APPLY", (p.stderr + p.stdout).strip()[:500])
        sys.exit(3)
    q = subprocess.run(["/venv/bin/python", "-c", "import optyx, optyx.solvers.scipy_solver, optyx.solvers.lp_solver, optyx.analysis"],
                       env=dict(os.environ, PYTHONPATH=os.path.join(tmp, "src")), capture_output=True, text=True)
    if q.returncode != 0:
        print("PATCHED-TREE-DOES-NOT-IMPORT (the patch no longer fits the tree)", q.stderr.strip()[-300:])
        sys.exit(3)
    for prop in a.props:
        env = dict(os.environ, OPTYX_SRC=os.path.join(tmp, "src"), VERIF_OUT_DIR=os.path.join(tmp, "out"))
        cmd = ["/venv/bin/python", os.path.join(V, "checks", "check.py"), prop, "--tier", a.tier]
        if a.budget:
            cmd += ["--budget", a.budget]
        t = time.time()
        q = subprocess.run(cmd, capture_output=True, text=True, env=env)
        lines = [l for l in q.stdout.splitlines() if l.startswith(("VIOLATION", "  violation", "OK", "HARNESS", "KNOWN"))]
        verdict = {0: "MISSED", 1: "CAUGHT", 2: "HARNESS-ERROR"}.get(q.returncode, f"rc={q.returncode}")
        print(f"{verdict} {prop} {os.path.basename(os.path.dirname(os.path.abspath(a.patch)))}/{os.path.basename(a.patch)} ({time.time()-t:.0f}s)")
        for l in lines[:6]:
            print("   ", l[:400])
        if q.returncode == 2:
            print(q.stdout[-1500:], q.stderr[-1500:])
        if q.returncode != 1:
            ok = False
finally:
    if not a.keep:
        shutil.rmtree(tmp, ignore_errors=True)
sys.exit(0 if ok else 1)
