#!/usr/bin/env python3
"""Run the registered quick checks against seeded changes (scratch copy, never /repo)
and record the verdicts in each seeded/<id>/meta.json.

  run_seeded.py [--budget S] [--tier quick] [--extra C12,C13] [id ...]
"""
import argparse, json, os, subprocess, sys

V = os.path.dirname(os.path.dirname(os.path.abspath(__file__)))
ap = argparse.ArgumentParser()
ap.add_argument("ids", nargs="*")
ap.add_argument("--budget", default="30")
ap.add_argument("--tier", default="quick")
ap.add_argument("--extra", default="")
a = ap.parse_args()
ids = a.ids or sorted(s for s in os.listdir(os.path.join(V, "seeded")) if not s.startswith("_"))
for sid in ids:
    d = os.path.join(V, "seeded", sid)
    meta = json.load(open(os.path.join(d, "meta.json")))
    props = [meta["breaks_property"]] + [p for p in a.extra.split(",") if p and p != meta["breaks_property"]]
    for prop in props:
        q = subprocess.run([sys.executable, os.path.join(V, "selftest", "run_mutant.py"), os.path.join(d, "patch.diff"), prop, "--tier", a.tier, "--budget", a.budget], capture_output=True, text=True)
        first = q.stdout.splitlines()[0] if q.stdout else "NO-OUTPUT"
        verdict = first.split()[0]
        detail = [l.strip() for l in q.stdout.splitlines()[1:4]]
        meta.setdefault("checks_run", {})[prop] = {"verdict": verdict, "tier": a.tier, "budget_s": a.budget, "detail": detail[:2]}
        print(sid, prop, verdict, detail[:1], flush=True)
    json.dump(meta, open(os.path.join(d, "meta.json"), "w"), indent=1)
