#!/usr/bin/env python3
"""Regenerates /verif/MANIFEST.json from the tables below (kept in one place so it stays valid)."""
import json, os

V = os.path.dirname(os.path.abspath(__file__))
PY = "/venv/bin/python"

NA = {
    "C01": "pure function of (expression, variable order, point): no schedule, clock, fault or surviving state in the statement; its cache and parameter clauses are decided under C14 and C12",
    "C02": "pure function of (expression, variable, point); nothing for a simulator to schedule or fault",
    "C03": "pure function of (expressions, variable order, point); path selection depends only on the input shape",
    "C04": "pure function of the immutable expression tree",
    "C05": "pure function of the problem (LP extraction); no history, fault or external party in the claim",
    "C08": "pure differential test over (model, sense, method); the cached re-solve facet is exercised by C13's history machine",
    "C09": "pure differential test against a direct SciPy call; deterministic, no fault or history dimension",
    "C10": "pure function of (operand kinds, sense, point)",
    "C11": "pure function of (construction recipe, values)",
    "C15": "pure function of (term list, association, threshold); thresholds are used only as per-run knobs of the other machines, which does not decide C15",
    "C16": "pure function of the objective and constraints; the stale-_variables facet is decided under C13",
    "C17": "pure function of (expression, variable order, point)",
    "C19": "pure function of (expression, variable order, point)",
}

_TRUST = "Trusted: SciPy/NumPy determinism for identical inputs (self-tested by run-twice digests), the shadow-state transitions in sim/executor.py (one line per user operation), the spec builder using only the public API."

CLAIMED = {
    "C06": dict(
        category="exploration",
        text="Seeded search over (problem, method, peer behaviour at the solver seam): real SciPy, SciPy with a truncated budget, and scripted answers from each method's own (success, status, message) table with feasible / constraint-violating / bound-violating points, including the SLSQP->trust-constr retry entry. Oracle OPTIMAL => feasible, evaluated twice (optyx's own constraint objects on the returned values, NaN = violated; and the constraints as written in the spec under the harness's independent pure-Python semantics) plus the shadow state's declared bounds, tolerance looser than optyx's own. Sampling; thorough tier sweeps the whole response-class table per scenario.",
        design_ref="DESIGN.md §5/C06",
        note=_TRUST + " Scripted answers are confined to combinations SciPy documents or was observed to produce.",
        technique="deterministic simulation: solver-seam response injection (real / truncated / scripted peer)",
    ),
    "C07": dict(
        category="exploration",
        text="Same engine as C06 with maximise problems, constant terms, vector / matrix / symmetric-matrix variables and every termination path (OPTIMAL, MAX_ITERATIONS, INFEASIBLE, UNBOUNDED with a ray, FAILED with values, x=None). Oracle: objective_value = user's objective at the returned values (optyx's expression object and, independently, the objective as written in the spec); keys(values) = exactly the mentioned variables (from the harness's own AST); handles and views retrieve the right shape and position. For a fixed solver answer this is a pure function; the simulation contributes the answer space.",
        design_ref="DESIGN.md §5/C07",
        note=_TRUST,
        technique="deterministic simulation: solver-seam response injection, self-consistency oracle",
    ),
    "C12": dict(
        category="exploration",
        text="Seeded histories interleaving Parameter/VectorParameter updates with solves (method switches), evaluations and calls of long-lived compiled callables (value, gradient, Jacobian, Hessian, CompiledExpression, dict function, symbolic gradient); parameters in 9 placements, written as Python numbers or in a NumPy dtype (float16/float32/int8/int32/bool); recursion-threshold and LRU-size knobs put the same models on the iterative code paths. Each observation equals R1 (fresh model, fresh Parameters at current values, pristine process; tight) and R2 (parameters as Constants; tight pointwise, 5e-3 on optimal objective values of strictly convex members).",
        design_ref="DESIGN.md §5/C12, §3.4",
        note=_TRUST,
        technique="deterministic simulation: seeded history machine vs pristine-process reference model",
    ),
    "C18": dict(
        category="exploration",
        text="Two parts. (1) Simulation: the C13 edit/solve history machine on pools with integer/binary variables and strict solves; 'raises before any solver runs' is checked as an ordering over seam events (zero solver entries and zero callbacks before the raise), also on problems reached by editing a solved problem (cached variable list / LP data); the relaxation clause uses a pristine-process solve of the same shadow state with continuous domains, compared tightly incl. the data handed to the solver; warnings are observed under Python's default once-per-location registry with every solve issued from its own call site (or, for some, from one shared call site like a line in a loop), whose namespace is a bare dict or looks like the __main__ of `python -c`, of a script or of a notebook cell; a relaxed solve that raises although its all-continuous twin returns is a finding. (2) Plain enumeration, labelled as such: declaration route x domain x model x method x strict, plus domain and [0,1] bounds of every element through every route.",
        design_ref="DESIGN.md §5/C18",
        note=_TRUST + " The route x method product is enumeration, not simulation.",
        technique="deterministic simulation: solver-entry spy + history machine (plus an enumerated route x method table)",
    ),
    "C20": dict(
        category="fault_enumeration",
        text="Fault injection at the solver seam: an exception from {ValueError, FloatingPointError, MemoryError, KeyboardInterrupt} raised at solver entry, instead of the k-th objective/gradient/constraint/Jacobian/Hessian callback, part-way inside the k-th callback (at the j-th line executed in optyx's compiled closures), or after SciPy returned; for the enumerated scenarios EVERY site 1..K (K from a fault-free dry run) x every class is injected; seeded runs add double faults, faults inside increased_recursion_limit, scripted callback orders and the SLSQP->trust-constr retry entry. Oracles: FAILED-or-propagate when the exception left the solver; showwarning hook identity, warnings.filters (same list, same entries) and recursion limit after every operation; every later solve equals the pristine-process baseline.",
        design_ref="DESIGN.md §5/C20",
        note=_TRUST + " Fault model is the property's (solver or callback raises, also part-way inside a callback); exceptions landing in optyx's solver-module frames outside a callback are not injected.",
        technique="deterministic simulation: fault enumeration at the solver seam + recovery vs pristine-process baseline",
    ),
    "C14": dict(
        category="exploration",
        text="Seeded histories with a target model and an adversarial prefix of models reusing its variable/parameter names (other values, bounds, domains, structure, bare leaves as cache keys), drop+gc for id reuse, floods past LRU capacity (knob-shrunk in quick, default 1024/4096 in thorough), and an enumerated prefix-length sweep (every number k = 0..400 of throw-away compilations over k distinct variable orderings between an adversary and the target). Every observation on every model equals the same observation on that model alone in a pristine forked process.",
        design_ref="DESIGN.md §5/C14",
        note=_TRUST,
        technique="deterministic simulation: seeded history machine with adversarial prefixes vs pristine-process reference",
    ),
    "C13": dict(
        category="exploration",
        text="Seeded search over edit/solve/read histories on one Problem; every solve and read is compared tightly with the same call on a from-scratch build of the current logical state in a pristine forked process (status, values, objective, message, iteration count, the exact data handed to SciPy at the seam, warnings). Sampling, not proof: a clean batch is evidence.",
        design_ref="DESIGN.md §5/C13, §3.3-3.4",
        note="Trusted: SciPy/NumPy determinism for identical inputs (self-tested by run-twice digests), the shadow-state transitions in sim/executor.py (one line per user operation), the spec builder using only the public API.",
        technique="deterministic simulation: seeded history machine vs pristine-process reference model",
    ),
}

PENDING = {}


def main():
    checks = []
    for pid, c in sorted(CLAIMED.items()):
        checks.append({
            "property_id": pid,
            "quick_cmd": f"{PY} checks/check.py {pid} --tier quick",
            "thorough_cmd": f"{PY} checks/check.py {pid} --tier thorough",
            "evidence_file": f"/verif/evidence/{pid}.json",
            "replay_cmd_template": f"{PY} checks/check.py --replay {{path}}",
            "engine": "sim",
            "level_claimed": {"category": c["category"], "text": c["text"], "design_ref": c["design_ref"]},
            "level_note": c["note"],
            "technique": c["technique"],
        })
    na = [{"property_id": k, "reason": v} for k, v in sorted({**NA, **PENDING}.items())]
    doc = {
        "version": 1,
        "setup_cmd": f"{PY} -c 'import numpy, scipy, sys; sys.path.insert(0, \"/repo/src\"); import optyx'",
        "hooks": {
            "guard": "OPTYX_VERIF",
            "enable": "no hook is compiled into /repo: every seam is rebound from /verif inside the run process (scipy_solver.minimize, scipy.optimize.linprog, the solver modules' `time`, the four _RECURSION_THRESHOLD copies, the three LRU caches). The guard name is reserved and unused.",
            "baseline_off_cmd": "cd /repo && /venv/bin/python -m pytest -q -p no:cacheprovider --timeout=900",
            "source_commits": [],
            "add_only": True,
        },
        "engines": [{
            "name": "sim",
            "path": "/verif/sim",
            "serves_properties": sorted(CLAIMED),
            "kind_free_text": "deterministic simulation with fault injection: seeded op/fault generator, explicit op lists, solver-seam peers (real / faulted / truncated / scripted), simulated clock, pristine-process reference server, ddmin + replay files",
        }],
        "checks": checks,
        "not_applicable": na,
        "notes": "exit 2 + 'HARNESS-ERROR ...' = the machinery itself failed (timeout, seam bypassed, nondeterministic replay); never a pass. Fix commits in /repo are listed in known_findings.json as status=fixed.",
    }
    with open(os.path.join(V, "MANIFEST.json"), "w") as f:
        json.dump(doc, f, indent=1)
    print("wrote MANIFEST.json:", len(checks), "checks,", len(na), "not_applicable")


if __name__ == "__main__":
    main()
