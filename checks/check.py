#!/venv/bin/python
"""CLI of the deterministic-simulation checks for daggbt/optyx.

  check.py <Cxx> --tier quick|thorough
  check.py --replay FILE
  check.py selftest determinism [--n N]

exit 0: property held on everything explored (KNOWN-FINDING lines allowed)
exit 1: VIOLATION property=<id> replay=<path>
exit 2: HARNESS-ERROR ... (never a pass, never a violation)
"""

from __future__ import annotations

import os
import sys

VERIF = os.path.dirname(os.path.dirname(os.path.abspath(__file__)))
OUT = os.environ.get("VERIF_OUT_DIR", VERIF)  # evidence/ and replays/ go here (mutant runs redirect it)

if os.environ.get("PYTHONHASHSEED") is None:
    # one fixed hash seed by default; the determinism self-test varies it
    os.environ["PYTHONHASHSEED"] = "0"
    os.execv(sys.executable, [sys.executable] + sys.argv)

for _k in ("OMP_NUM_THREADS", "OPENBLAS_NUM_THREADS", "MKL_NUM_THREADS"):
    os.environ[_k] = "1"
sys.path.insert(0, VERIF)
sys.dont_write_bytecode = True

import argparse  # noqa: E402
import hashlib  # noqa: E402
import json  # noqa: E402
import multiprocessing as mp  # noqa: E402
import random  # noqa: E402
import re  # noqa: E402
import subprocess  # noqa: E402
import time  # noqa: E402
import traceback  # noqa: E402
from concurrent.futures import FIRST_COMPLETED, ProcessPoolExecutor, wait  # noqa: E402


def harness_error(msg, code=2):
    print(f"HARNESS-ERROR {msg}", flush=True)
    sys.exit(code)


# --------------------------------------------------------------------------
# worker-side
# --------------------------------------------------------------------------


def _case_for(prop, root_seed, idx, tier):
    from sim import machines
    from sim.gen import run_seed

    seed = run_seed(root_seed, prop, idx)
    r = random.Random(seed)
    return seed, machines.PROPS[prop]["gen"](r, tier)


def _work_seeded(args):
    prop, root_seed, idx, tier = args
    from sim.runner import HarnessFailure, judge_case

    t = time.monotonic()
    seed, case = _case_for(prop, root_seed, idx, tier)
    try:
        out = judge_case(prop, case)
    except HarnessFailure as e:
        return {"kind": "seeded", "idx": idx, "seed": seed, "harness": [e.kind, e.detail[-3000:]], "dt": time.monotonic() - t}
    out.update(kind="seeded", idx=idx, seed=seed, dt=time.monotonic() - t)
    return out


def _work_explicit(args):
    prop, tag, case = args
    from sim.runner import HarnessFailure, judge_case

    t = time.monotonic()
    try:
        out = judge_case(prop, case)
    except HarnessFailure as e:
        return {"kind": "sweep", "tag": tag, "harness": [e.kind, e.detail[-3000:]], "dt": time.monotonic() - t, "case": case}
    out.update(kind="sweep", tag=tag, dt=time.monotonic() - t)
    if out["findings"]:
        out["case"] = case
    return out


def _digest_case(args):
    """Execute a case and return the SHA-256 of its full event log."""
    prop, root_seed, idx, tier = args
    from sim.runner import execute

    seed, case = _case_for(prop, root_seed, idx, tier)
    res = execute(case["ops"], case["knobs"])
    blob = json.dumps([case, res["log"], res["clock"], res["seq"]], sort_keys=True)
    return idx, hashlib.sha256(blob.encode()).hexdigest()


# --------------------------------------------------------------------------
# known findings
# --------------------------------------------------------------------------


def load_known():
    p = os.path.join(VERIF, "known_findings.json")
    if not os.path.exists(p):
        return []
    with open(p) as f:
        return json.load(f).get("findings", [])


def match_known(finding, known):
    for k in known:
        if k.get("status") != "known" or k.get("property") != finding["property"]:
            continue
        m = k.get("match", {})
        if m.get("oracle") and m["oracle"] != finding["oracle"]:
            continue
        if m.get("detail_regex") and not re.search(m["detail_regex"], finding["detail"]):
            continue
        return k
    return None


# --------------------------------------------------------------------------
# main check
# --------------------------------------------------------------------------


def run_check(prop, tier, budget_s, workers):
    from sim import machines
    from sim.boot import optyx_src

    t0 = time.monotonic()
    if prop not in machines.PROPS:
        harness_error(f"unknown or not-applicable property {prop}")
    P = machines.PROPS[prop]
    root_seed = int(os.environ.get("VERIF_SEED", "0"))
    known = load_known()
    ctx = mp.get_context("fork")

    results = []
    harness = []
    det = {"checked": 0, "mismatch": []}
    with ProcessPoolExecutor(workers, mp_context=ctx) as ex:
        # -- determinism: first seeds twice, in different processes
        ndet = P.get("det_quick", 6) if tier == "quick" else P.get("det_thorough", 24)
        a = list(ex.map(_digest_case, [(prop, root_seed, i, tier) for i in range(ndet)]))
        b = list(ex.map(_digest_case, [(prop, root_seed, i, tier) for i in reversed(range(ndet))]))
        bm = dict(b)
        for i, h in a:
            det["checked"] += 1
            if bm[i] != h:
                det["mismatch"].append(i)
        if det["mismatch"]:
            harness_error(f"nondeterministic-run property={prop} seeds={det['mismatch']}")

        # -- deterministic sweeps first (they are part of the claim), then seeded search
        pending = set()
        sweep = list(P["sweep"](tier)) if P.get("sweep") else []
        sweep_total = len(sweep)
        sweep_iter = iter(sweep)
        deadline = t0 + budget_s
        idx = 0
        max_runs = P.get("max_runs", {}).get(tier)
        sweeping = True
        while True:
            while len(pending) < workers * 2:
                if sweeping:
                    nxt = next(sweep_iter, None)
                    if nxt is None:
                        sweeping = False
                        # the seeded search always gets at least half of the budget
                        deadline = max(deadline, time.monotonic() + budget_s / 2)
                        continue
                    pending.add(ex.submit(_work_explicit, (prop, nxt[0], nxt[1])))
                else:
                    if time.monotonic() >= deadline or (max_runs is not None and idx >= max_runs):
                        break
                    pending.add(ex.submit(_work_seeded, (prop, root_seed, idx, tier)))
                    idx += 1
            if not pending:
                break
            done, pending = wait(pending, return_when=FIRST_COMPLETED)
            for fut in done:
                try:
                    out = fut.result()
                except Exception:  # noqa: BLE001
                    harness_error("worker-died " + traceback.format_exc()[-1500:])
                if "harness" in out:
                    harness.append(out)
                else:
                    results.append(out)
            if harness:
                break
        for fut in pending:
            fut.cancel()

    if harness:
        h = harness[0]
        where = f"seed={h.get('seed')} idx={h.get('idx')}" if h["kind"] == "seeded" else f"sweep={h.get('tag')}"
        os.makedirs(os.path.join(OUT, "replays"), exist_ok=True)
        harness_error(f"{h['harness'][0]} property={prop} {where}\n{h['harness'][1]}")

    # -- findings -> classes
    classes = {}
    for out in results:
        for f in out["findings"]:
            key = (f["property"], f["oracle"])
            classes.setdefault(key, []).append((out, f))

    violations = []
    known_hits = {}
    os.makedirs(os.path.join(OUT, "replays"), exist_ok=True)
    for key, lst in sorted(classes.items()):
        unknown = [(o, f) for o, f in lst if match_known(f, known) is None]
        for o, f in lst:
            k = match_known(f, known)
            if k is not None:
                known_hits[k["what"]] = k
        if not unknown:
            continue
        unknown.sort(key=lambda of: 0 if of[1].get("witness", "real") == "real" else 1)
        out, f = unknown[0]
        if out["kind"] == "seeded":
            seed, case = _case_for(prop, root_seed, out["idx"], tier)
        else:
            seed, case = out["tag"], out["case"]
        violations.append(_report_violation(prop, key, seed, case, f, known))

    wall = time.monotonic() - t0
    _write_evidence(prop, tier, root_seed, P, results, det, violations, known_hits, wall, sweep_total, optyx_src())
    for what, k in sorted(known_hits.items()):
        print(f"KNOWN-FINDING: property={k['property']} {what}", flush=True)
    real = [v for v in violations if v is not None]
    if real:
        for v in real:
            print(f"VIOLATION property={prop} replay={v}", flush=True)
        sys.exit(1)
    n = len(results)
    print(f"OK property={prop} tier={tier} runs={n} wall={wall:.1f}s violations=0 known={len(known_hits)}", flush=True)
    sys.exit(0)


def _report_violation(prop, key, seed, case, f, known):
    """Minimise, write the replay file, confirm it in a fresh interpreter."""
    from sim.shrink import shrink, write_replay

    oracle = key[1]
    small, f2, used = shrink(prop, oracle, case, witness=f.get("witness"))
    if f2 is None:
        harness_error(f"nondeterministic-violation property={prop} oracle={oracle} seed={seed} (did not reproduce in-process)")
    if match_known(f2, known) is not None:
        # minimisation walked into a listed finding: report the unminimised case instead
        small, f2 = case, f
    extra = {"original_ops": len(case["ops"]), "shrink_execs": used}
    if f2.get("witness") in ("scripted", "truncated"):
        # does the same violation class also appear with the real solver on the minimised problem?
        import copy

        from sim.runner import HarnessFailure, judge_case
        from sim.shrink import same_class

        real_case = copy.deepcopy(small)
        for op in real_case["ops"]:
            o = op[2] if op[0] == "with_reclimit" else op
            if o[0] == "solve":
                for k in ("peer", "peers"):
                    o[2].pop(k, None)
        try:
            rf = same_class(judge_case(prop, real_case)["findings"], prop, oracle)
        except HarnessFailure:
            rf = None
        extra["witness"] = f2.get("witness")
        extra["confirmed_with_real_scipy_on_minimised_problem"] = rf is not None
    slug = re.sub(r"[^A-Za-z0-9]+", "-", oracle).strip("-")[:60]
    path = os.path.join(OUT, "replays", f"{prop}-{slug}-{seed}.json")
    write_replay(path, prop, seed, small, f2, extra)
    env = dict(os.environ)
    p = subprocess.run([sys.executable, os.path.abspath(__file__), "--replay", path], capture_output=True, text=True, env=env, timeout=600)
    if p.returncode != 1 or f"VIOLATION property={prop}" not in p.stdout:
        harness_error(f"nondeterministic-replay property={prop} file={path} rc={p.returncode}\n{p.stdout[-1500:]}\n{p.stderr[-1500:]}")
    print(f"  violation: property={prop} oracle={oracle} op#{f2['i']}: {f2['detail'][:300]}", flush=True)
    return path


def run_replay(path):
    from sim.runner import HarnessFailure, judge_case

    with open(path) as fh:
        doc = json.load(fh)
    prop = doc["property"]
    case = {"knobs": doc["knobs"], "ops": doc["ops"]}
    try:
        out = judge_case(prop, case)
    except HarnessFailure as e:
        harness_error(f"{e.kind} replay={path}\n{e.detail[-2000:]}")
    want = doc["violation"]
    for f in out["findings"]:
        if f["oracle"] == want["oracle"]:
            same = f["i"] == want["i"] and f["detail"] == want["detail"]
            print(f"  reproduced oracle={f['oracle']} op#{f['i']} identical={same}: {f['detail'][:300]}")
            if not same:
                harness_error(f"nondeterministic-replay detail differs: {f['detail'][:300]} vs {want['detail'][:300]}")
            print(f"VIOLATION property={prop} replay={path}", flush=True)
            sys.exit(1)
    print(f"replay did not reproduce oracle={want['oracle']} (findings: {[f['oracle'] for f in out['findings']]})")
    sys.exit(0)


# --------------------------------------------------------------------------
# evidence
# --------------------------------------------------------------------------


def _write_evidence(prop, tier, root_seed, P, results, det, violations, known_hits, wall, sweep_total, src):
    states, transitions, nontrivial = set(), set(), set()
    faults, probes = {}, {}
    judged = seam_events = real_calls = stub_calls = ref_forks = 0
    sim_s = 0.0
    nops = 0
    knob_misses = set()
    for out in results:
        r = out["reach"]
        states.update(r["states"])
        transitions.update(r["transitions"])
        nontrivial.update(r["nontrivial"])
        for k, v in r["faults"].items():
            faults[k] = faults.get(k, 0) + v
        for k, v in r["probes"].items():
            probes[k] = probes.get(k, 0) + v
        judged += r["judged"]
        seam_events += r["seam_events"]
        real_calls += r["real_solver_calls"]
        stub_calls += r["stub_solver_calls"]
        ref_forks += r.get("ref_forks", 0)
        sim_s += r["sim_seconds"]
        nops += out["ops"]
        knob_misses.update(r.get("knob_misses", []))
    seeded = [o for o in results if o["kind"] == "seeded"]
    samples = []
    for o in seeded[:2]:
        _, case = _case_for(prop, root_seed, o["idx"], tier)
        samples.append({"seed": o["seed"], "knobs": case["knobs"], "ops": _brief_ops(case["ops"])})
    if not samples:
        samples.append({"note": "no seeded run completed"})
    n = len(results)
    doc = {
        "property_id": prop,
        "tier": tier,
        "seed": root_seed,
        "level": P["level"],
        "coverage": {
            "evaluations": n,
            "distinct_nontrivial": len(nontrivial),
            "rule": P["rule"],
            "samples": samples,
            "states": len(states),
            "transitions": len(transitions),
            "exhaustive": bool(P.get("exhaustive_note")) and sweep_total > 0,
            "exhaustive_note": P.get("exhaustive_note", ""),
            "seeded_runs": len(seeded),
            "sweep_cases": sweep_total,
            "ops_executed": nops,
            "observations_judged": judged,
            "pristine_reference_forks": ref_forks,
            "runs_per_hour": round(n / wall * 3600) if wall > 0 else 0,
            "simulated_seconds": sim_s,
            "seam_events": seam_events,
            "fault_and_peer_kinds_fired": dict(sorted(faults.items())),
            "probes": dict(sorted(probes.items())),
            "solver_calls": {"real_scipy": real_calls, "scripted_stub": stub_calls},
            "components": {
                "optyx (tree under test)": "real",
                "scipy.optimize.minimize / linprog": "real behind the seam wrapper; stub only for scripted-peer answers",
                "time.perf_counter inside the solver modules": "stub (simulated clock, advanced per seam event)",
                "reference": "real optyx + real SciPy in a pristine forked process per observation",
            },
            "determinism": {"cases_run_twice": det["checked"], "digest_mismatches": len(det["mismatch"])},
            "knobs_unavailable": sorted(knob_misses),
            "known_findings_hit": sorted(known_hits),
            "optyx_src": src,
        },
        "assumptions": P["assumptions"],
        "wall_s": round(wall, 2),
        "violations": len([v for v in violations if v]),
    }
    os.makedirs(os.path.join(OUT, "evidence"), exist_ok=True)
    with open(os.path.join(OUT, "evidence", f"{prop}.json"), "w") as f:
        json.dump(doc, f, indent=1, sort_keys=True)


def _brief_ops(ops):
    out = []
    for op in ops:
        if op[0] == "new_model":
            sp = op[2]
            out.append(["new_model", op[1], {"vars": sp["vars"], "params": sp.get("params", []), "exprs": len(sp.get("exprs", {})), "cons": len(sp.get("cons", {}))}])
        else:
            out.append(op)
    return out


# --------------------------------------------------------------------------
# self-tests
# --------------------------------------------------------------------------


def selftest_determinism(n, props):
    """Each seed executed in fresh interpreters under different PYTHONHASHSEED and
    worker counts; digests of the full event log must agree."""
    from sim import machines

    props = props or sorted(machines.PROPS)
    configs = [("0", 1), ("1", 16), ("12345", 16), ("0", 16)]
    table = {}
    for hs, workers in configs:
        env = dict(os.environ, PYTHONHASHSEED=hs)
        p = subprocess.run(
            [sys.executable, os.path.abspath(__file__), "_digests", "--n", str(n), "--workers", str(workers), "--props", ",".join(props)],
            capture_output=True, text=True, env=env, timeout=7200,
        )
        if p.returncode != 0:
            harness_error(f"digest run failed hashseed={hs} workers={workers}\n{p.stdout[-2000:]}\n{p.stderr[-2000:]}")
        table[(hs, workers)] = json.loads(p.stdout.strip().splitlines()[-1])
    base = table[configs[0]]
    bad = []
    for cfg, t in table.items():
        for k, v in t.items():
            if base.get(k) != v:
                bad.append((cfg, k))
    total = len(base)
    print(f"determinism: {total} (property,seed) digests x {len(configs)} configurations (hashseed,workers)={configs}; mismatches={len(bad)}")
    if bad:
        print("MISMATCH", bad[:20])
        sys.exit(2)
    sys.exit(0)


def emit_digests(n, workers, props):
    root_seed = int(os.environ.get("VERIF_SEED", "0"))
    out = {}
    ctx = mp.get_context("fork")
    with ProcessPoolExecutor(workers, mp_context=ctx) as ex:
        for prop in props:
            for i, h in ex.map(_digest_case, [(prop, root_seed, i, "quick") for i in range(n)]):
                out[f"{prop}:{i}"] = h
    print(json.dumps(out, sort_keys=True))


def main():
    ap = argparse.ArgumentParser()
    ap.add_argument("what", nargs="*")
    ap.add_argument("--tier", default=os.environ.get("VERIF_TIER", "quick"))
    ap.add_argument("--replay")
    ap.add_argument("--budget", type=float, default=None)
    ap.add_argument("--workers", type=int, default=int(os.environ.get("VERIF_WORKERS", "16")))
    ap.add_argument("--n", type=int, default=16)
    ap.add_argument("--props", default="")
    a = ap.parse_args()
    if a.replay:
        return run_replay(a.replay)
    if not a.what:
        ap.error("property id, 'selftest determinism' or --replay FILE required")
    if a.what[0] == "selftest":
        return selftest_determinism(a.n, [p for p in a.props.split(",") if p])
    if a.what[0] == "_digests":
        return emit_digests(a.n, a.workers, [p for p in a.props.split(",") if p])
    tier = a.tier if a.tier in ("quick", "thorough") else "quick"
    budget = a.budget
    if budget is None:
        env_b = os.environ.get("VERIF_BUDGET_S")
        budget = float(env_b) if env_b else (40.0 if tier == "quick" else 600.0)
    try:
        run_check(a.what[0], tier, budget, a.workers)
    except SystemExit:
        raise
    except Exception:  # noqa: BLE001
        harness_error("internal " + traceback.format_exc()[-3000:])


if __name__ == "__main__":
    main()
