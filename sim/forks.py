"""Run a function in a forked child of the (pristine) current process."""

from __future__ import annotations

import os
import pickle
import select
import signal
import struct
import time
import traceback


def call_in_fork(fn, args=(), timeout=60.0):
    """Returns ("ok", value) | ("error", traceback_text) | ("timeout", None) | ("crash", status)."""
    r, w = os.pipe()
    pid = os.fork()
    if pid == 0:
        code = 0
        try:
            os.close(r)
            try:
                out = ("ok", fn(*args))
            except BaseException:  # noqa: BLE001
                out = ("error", traceback.format_exc())
            data = pickle.dumps(out, protocol=pickle.HIGHEST_PROTOCOL)
            with os.fdopen(w, "wb") as f:
                f.write(struct.pack("<Q", len(data)))
                f.write(data)
        except BaseException:  # noqa: BLE001
            code = 3
        finally:
            os._exit(code)
    os.close(w)
    deadline = time.monotonic() + timeout
    chunks = []
    timed_out = False
    try:
        while True:
            left = deadline - time.monotonic()
            if left <= 0:
                timed_out = True
                break
            rl, _, _ = select.select([r], [], [], min(left, 1.0))
            if rl:
                b = os.read(r, 1 << 20)
                if not b:
                    break
                chunks.append(b)
    finally:
        os.close(r)
    if timed_out:
        try:
            os.kill(pid, signal.SIGKILL)
        except ProcessLookupError:
            pass
        os.waitpid(pid, 0)
        return ("timeout", None)
    _, status = os.waitpid(pid, 0)
    data = b"".join(chunks)
    if len(data) < 8:
        return ("crash", status)
    (n,) = struct.unpack("<Q", data[:8])
    if len(data) - 8 != n:
        return ("crash", status)
    return pickle.loads(data[8:])
