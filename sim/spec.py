"""Mini-AST ("spec") for optyx models + builder through the public API.

Everything here is plain JSON data so that op lists are explicit, replayable
and shrinkable.  `build_model` is the only place that touches optyx objects.

EXPR  := ["num", c]            python literal (goes through _ensure_expr)
       | ["npnum", c]          np.float64(c): a number taken out of an array
       | ["const", c]          explicit Constant(c)
       | ["var", name]         scalar Variable
       | ["vel", vec, i]       VectorVariable element
       | ["mel", mat, i, j]    MatrixVariable element
       | ["param", name]       scalar Parameter
       | ["pel", pvec, i]      VectorParameter element
       | [op, a, b]            op in + - * / **
       | ["neg", a]
       | ["fn", fname, a]      fname in FUNCS
       | ["vsum", VEC] | ["lincomb", [c..], VEC] | ["dot", VEC, VEC]
       | ["quad", VEC, [[..]..]] | ["norm", VEC, ord]
       | ["qform", VEC, [[..]..]]   quadratic_form(v, Q)      | ["bilin", VEC, Q, VEC]
       | ["trace", mat] | ["frob", mat] (frobenius_norm: evaluates, cannot be compiled)
       | ["chain", op, [EXPR..]]   left-deep accumulation
VEC   := ["vec", name] | ["vslice", name, a, b] | ["mrow", mat, i] | ["mcol", mat, j]
       | ["mdiag", mat] | ["vscale", VEC, c] | ["vshift", VEC, c]
       | ["matvec", [[..]..], VEC]  constant array @ vector    | ["mvprod", mat, VEC]  MatrixVariable @ vector
       | ["vfn", fname, VEC] | ["vpow", VEC, k]   element-wise function / power
       | ["vrsub", [c..], VEC] | ["vrdiv", [c..], VEC]   array - vector, array / vector (reflected operators)
CON   := {"k":"s", "lhs":EXPR, "sense": "<="|">="|"==", "rhs": EXPR}
       | {"k":"v", "lhs":VEC,  "sense": ..., "rhs": number | [numbers]}   (list of constraints; A @ x <= b)
"""

from __future__ import annotations

import re

BINOPS = ("+", "-", "*", "/", "**")
FUNCS = ("sin", "cos", "tan", "exp", "log", "sqrt", "abs", "tanh", "sinh", "cosh")

_NUM_RE = re.compile(r"(\d+)")


def natural_key(name: str):
    return tuple(int(p) if p.isdigit() else p for p in _NUM_RE.split(name))


# --------------------------------------------------------------------------
# pure functions of the spec (independent of optyx)
# --------------------------------------------------------------------------


def var_decl(spec, name):
    for v in spec["vars"]:
        if v["name"] == name:
            return v
    raise KeyError(name)


def mel_name(decl, i, j):
    if decl.get("symmetric") and j < i:
        i, j = j, i
    return f"{decl['name']}[{i},{j}]"


def element_names(decl):
    """All distinct scalar variable names created by a declaration, natural order."""
    k = decl["kind"]
    if k == "scalar":
        return [decl["name"]]
    if k == "vector":
        return [f"{decl['name']}[{i}]" for i in range(decl["n"])]
    out = []
    for i in range(decl["rows"]):
        for j in range(decl["cols"]):
            if decl.get("symmetric") and j < i:
                continue
            out.append(f"{decl['name']}[{i},{j}]")
    return out


def all_element_names(spec):
    out = []
    for d in spec["vars"]:
        out.extend(element_names(d))
    return out


def vec_names(spec, vec):
    t = vec[0]
    if t == "vec":
        d = var_decl(spec, vec[1])
        return [f"{d['name']}[{i}]" for i in range(d["n"])]
    if t == "vslice":
        d = var_decl(spec, vec[1])
        return [f"{d['name']}[{i}]" for i in range(d["n"])][vec[2] : vec[3]]
    if t == "vrev":
        d = var_decl(spec, vec[1])
        return [f"{d['name']}[{i}]" for i in range(d["n"])][::-1]
    if t == "vstride":
        d = var_decl(spec, vec[1])
        return [f"{d['name']}[{i}]" for i in range(d["n"])][:: vec[2]]
    if t == "mrow":
        d = var_decl(spec, vec[1])
        return [mel_name(d, vec[2], j) for j in range(d["cols"])]
    if t == "mcol":
        d = var_decl(spec, vec[1])
        return [mel_name(d, i, vec[2]) for i in range(d["rows"])]
    if t == "mdiag":
        d = var_decl(spec, vec[1])
        return [mel_name(d, i, i) for i in range(d["rows"])]
    if t == "mTrow":
        d = var_decl(spec, vec[1])
        return [mel_name(d, i, vec[2]) for i in range(d["rows"])]
    if t == "mrowslice":
        d = var_decl(spec, vec[1])
        return [mel_name(d, vec[2], j) for j in range(vec[3], vec[4])]
    if t == "msubrow":
        d = var_decl(spec, vec[1])
        return [mel_name(d, vec[2], j) for j in range(vec[3], vec[4])]
    if t in ("vscale", "vshift"):
        return vec_names(spec, vec[1])
    raise ValueError(f"bad VEC {vec!r}")


def vec_mentioned(spec, vec):
    """Names of the scalar variables a VEC mentions."""
    if vec[0] == "vexpr":
        acc = set()
        for e in vec[1]:
            mentioned(spec, e, acc)
        return acc
    if vec[0] in ("vscale", "vshift", "vpow"):
        return vec_mentioned(spec, vec[1])
    if vec[0] in ("matvec", "vfn", "vrsub", "vrdiv"):
        return vec_mentioned(spec, vec[2])
    if vec[0] == "mvprod":
        return set(element_names(var_decl(spec, vec[1]))) | vec_mentioned(spec, vec[2])
    return set(vec_names(spec, vec))


def vec_len(spec, vec):
    if vec[0] == "vexpr":
        return len(vec[1])
    if vec[0] in ("vscale", "vshift", "vpow"):
        return vec_len(spec, vec[1])
    if vec[0] == "matvec":
        return len(coef_values(spec, vec[1]))
    if vec[0] in ("vfn", "vrsub", "vrdiv"):
        return vec_len(spec, vec[2])
    if vec[0] == "mvprod":
        return var_decl(spec, vec[1])["rows"]
    return len(vec_names(spec, vec))


def mentioned(spec, e, acc=None):
    """Names of the scalar variables an EXPR mentions (set)."""
    if acc is None:
        acc = set()
    stack = [e]
    while stack:
        e = stack.pop()
        t = e[0]
        if t in ("num", "npnum", "const", "param", "pel"):
            continue
        if t == "var":
            acc.add(e[1])
        elif t == "vel":
            acc.add(f"{e[1]}[{e[2]}]")
        elif t == "mel":
            acc.add(mel_name(var_decl(spec, e[1]), e[2], e[3]))
        elif t in BINOPS:
            stack.append(e[1])
            stack.append(e[2])
        elif t == "neg":
            stack.append(e[1])
        elif t == "fn":
            stack.append(e[2])
        elif t in ("vsum",):
            acc.update(vec_mentioned(spec, e[1]))
        elif t == "msum":
            acc.update(element_names(var_decl(spec, e[1])))
        elif t == "lincomb":
            acc.update(vec_mentioned(spec, e[2]))
        elif t == "dot":
            acc.update(vec_mentioned(spec, e[1]))
            acc.update(vec_mentioned(spec, e[2]))
        elif t in ("quad", "norm", "qform"):
            acc.update(vec_mentioned(spec, e[1]))
        elif t in ("trace", "frob"):
            d = var_decl(spec, e[1])
            if t == "trace":
                acc.update(mel_name(d, i, i) for i in range(d["rows"]))
            else:
                acc.update(element_names(d))
        elif t == "bilin":
            acc.update(vec_mentioned(spec, e[1]))
            acc.update(vec_mentioned(spec, e[3]))
        elif t == "chain":
            stack.extend(e[2])
        else:
            raise ValueError(f"bad EXPR {e!r}")
    return acc


def con_mentioned(spec, con):
    if con["k"] == "m":
        d = var_decl(spec, con["lhs"][1])
        return set(element_names(d))
    if con["k"] == "s":
        s = mentioned(spec, con["lhs"])
        mentioned(spec, con["rhs"], s)
        return s
    return vec_mentioned(spec, con["lhs"])


def params_in(e, acc=None):
    if acc is None:
        acc = set()
    stack = [e]
    while stack:
        e = stack.pop()
        if not isinstance(e, list) or not e:
            continue
        t = e[0]
        if t == "param":
            acc.add(e[1])
        elif t == "pel":
            acc.add(e[1])
        elif t in BINOPS:
            stack.append(e[1])
            stack.append(e[2])
        elif t == "neg":
            stack.append(e[1])
        elif t == "fn":
            stack.append(e[2])
        elif t == "chain":
            stack.extend(e[2])
        elif t in ("vsum", "norm", "quad", "qform", "vpow"):
            stack.append(e[1])
        elif t in ("matvec", "vfn", "mvprod", "vrsub", "vrdiv"):
            stack.append(e[2])
        elif t == "bilin":
            stack.append(e[1])
            stack.append(e[3])
        elif t == "lincomb":
            stack.append(e[2])
        elif t == "dot":
            stack.append(e[1])
            stack.append(e[2])
        elif t == "vexpr":
            stack.extend(e[1])
        elif t in ("vscale", "vshift"):
            stack.append(e[1])
    return acc


# --------------------------------------------------------------------------
# builder (public optyx API only)
# --------------------------------------------------------------------------


_SHARED_Q = {}


class Model:
    """Real optyx objects for one spec."""

    __slots__ = ("spec", "vars", "params", "elems", "exprs", "cons", "problem", "handles", "last_values", "views", "buffers")

    def __init__(self):
        self.vars = {}
        self.params = {}
        self.elems = {}
        self.exprs = {}
        self.cons = {}
        self.problem = None
        self.handles = {}
        self.last_values = None
        self.views = {}
        self.buffers = {}


def build_model(spec, params_as_constants=False):
    import numpy as np
    import optyx as ox

    m = Model()
    m.spec = spec
    for d in spec["vars"]:
        k = d["kind"]
        kw = {}
        if d.get("lb") is not None:
            kw["lb"] = d["lb"]
        if d.get("ub") is not None:
            kw["ub"] = d["ub"]
        if d.get("domain", "continuous") != "continuous":
            kw["domain"] = d["domain"]
        if k == "scalar":
            v = ox.Variable(d["name"], **kw)
            m.elems[d["name"]] = v
        elif k == "vector":
            if d.get("via") == "from_numpy":
                # the other public constructor: size taken from a data array
                import numpy as np

                v = ox.VectorVariable.from_numpy(d["name"], np.zeros(d["n"]), **kw)
            else:
                v = ox.VectorVariable(d["name"], d["n"], **kw)
            for i in range(d["n"]):
                m.elems[f"{d['name']}[{i}]"] = v[i]
        else:
            if d.get("symmetric"):
                kw["symmetric"] = True
            v = ox.MatrixVariable(d["name"], d["rows"], d["cols"], **kw)
            for i in range(d["rows"]):
                for j in range(d["cols"]):
                    m.elems[mel_name(d, i, j)] = v[i, j]
        m.vars[d["name"]] = v
    # attribute edits the user made so far (bounds / domain), folded into a rebuild
    for name, ov in sorted(spec.get("ov", {}).items()):
        el = m.elems[name]
        for attr in ("lb", "ub", "domain"):
            if attr in ov:
                setattr(el, attr, ov[attr])
    for d in spec.get("params", []):
        if d["kind"] == "scalar":
            if params_as_constants:
                m.params[d["name"]] = ("const", float(d["value"]))
            else:
                m.params[d["name"]] = ox.Parameter(d["name"], d["value"])
        elif d["kind"] == "array":
            # ONE Parameter holding an array (vectorised evaluation of scenario data)
            import numpy as np

            if params_as_constants:
                m.params[d["name"]] = ("aconst", [float(x) for x in d["values"]])
            else:
                m.params[d["name"]] = ox.Parameter(d["name"], np.array(d["values"], dtype=float))
        else:
            if params_as_constants:
                m.params[d["name"]] = ("vconst", [float(x) for x in d["values"]])
            else:
                m.params[d["name"]] = ox.VectorParameter(
                    d["name"], d["n"], values=list(d["values"])
                )
    for name in spec.get("expr_order", sorted(spec.get("exprs", {}))):
        m.exprs[name] = build_expr(m, spec["exprs"][name])
    for name in spec.get("con_order", sorted(spec.get("cons", {}))):
        m.cons[name] = build_con(m, spec["cons"][name])
    m.problem = ox.Problem(spec.get("name"))
    return m


def _coef(m, c):
    """A coefficient array of the model: a literal list (a fresh array), or "@name": ONE array object
    of the user's (spec["buffers"][name]) that several expressions may share and that the user may
    overwrite in place later (op buffer_write).  The model means the numbers it was BUILT with."""
    import numpy as np

    if isinstance(c, str):
        name = c[1:]
        if name not in m.buffers:
            m.buffers[name] = np.array(m.spec["buffers"][name], dtype=float)
        return m.buffers[name]
    return np.array(c, dtype=float)


def coef_values(spec, c):
    return spec["buffers"][c[1:]] if isinstance(c, str) else c


def build_vec(m, vec):
    if m.spec.get("share_views"):
        # the user names a view once (r = x[::-1]) and reuses that object everywhere
        key = repr(vec)
        if key not in m.views:
            m.views[key] = _build_vec(m, vec)
        return m.views[key]
    return _build_vec(m, vec)


def _build_vec(m, vec):
    t = vec[0]
    if t == "vec":
        return m.vars[vec[1]]
    if t == "vslice":
        return m.vars[vec[1]][vec[2] : vec[3]]
    if t == "vrev":
        return m.vars[vec[1]][::-1]
    if t == "vstride":
        return m.vars[vec[1]][:: vec[2]]
    if t == "mrow":
        return m.vars[vec[1]][vec[2], :]
    if t == "mcol":
        return m.vars[vec[1]][:, vec[2]]
    if t == "mdiag":
        return m.vars[vec[1]].diagonal()
    if t == "mTrow":
        return m.vars[vec[1]].T[vec[2], :]
    if t == "mrowslice":
        return m.vars[vec[1]][vec[2], vec[3] : vec[4]]
    if t == "msubrow":
        return m.vars[vec[1]][vec[2] : vec[2] + 1, vec[3] : vec[4]][0, :]
    if t == "vexpr":
        from optyx.core.vectors import VectorExpression

        return VectorExpression([build_expr(m, e) for e in vec[1]])
    if t == "vscale":
        return build_vec(m, vec[1]) * vec[2]
    if t == "vshift":
        return build_vec(m, vec[1]) + vec[2]
    if t == "matvec":
        # A @ x with a constant array A (the textbook way to write LP rows); for an operand that is
        # itself a vector expression the public helper is used
        import numpy as np
        import optyx as ox
        from optyx.core.vectors import VectorVariable

        inner = build_vec(m, vec[2])
        A = _coef(m, vec[1])
        return A @ inner if isinstance(inner, VectorVariable) else ox.matmul(A, inner)
    if t == "vfn":
        import optyx as ox

        f = {"sin": ox.sin, "cos": ox.cos, "exp": ox.exp, "log": ox.log, "sqrt": ox.sqrt, "abs": ox.abs_,
             "tanh": ox.tanh, "cosh": ox.cosh, "sinh": ox.sinh, "tan": ox.tan}[vec[1]]
        return f(build_vec(m, vec[2]))
    if t == "vpow":
        return build_vec(m, vec[1]) ** vec[2]
    if t in ("vrsub", "vrdiv"):
        # reflected operators with an array on the left: c - x (distance to a point), c / x
        import numpy as np

        c = np.array(vec[1], dtype=float)
        return c - build_vec(m, vec[2]) if t == "vrsub" else c / build_vec(m, vec[2])
    if t == "mvprod":
        # M @ v with a MatrixVariable M: a vector of bilinear expressions
        return m.vars[vec[1]] @ build_vec(m, vec[2])
    raise ValueError(f"bad VEC {vec!r}")


def _binop(op, a, b):
    if op == "+":
        return a + b
    if op == "-":
        return a - b
    if op == "*":
        return a * b
    if op == "/":
        return a / b
    if op == "**":
        return a**b
    raise ValueError(op)


def build_expr(m, e):
    import numpy as np
    import optyx as ox
    from optyx.core.expressions import Constant

    t = e[0]
    if t == "num":
        return e[1]
    if t == "npnum":
        return np.float64(e[1])  # a number the user pulled out of an array (rates[0] * price)
    if t == "const":
        return Constant(e[1])
    if t == "var":
        return m.vars[e[1]]
    if t == "vel":
        return m.vars[e[1]][e[2]]
    if t == "mel":
        return m.vars[e[1]][e[2], e[3]]
    if t == "param":
        p = m.params[e[1]]
        if isinstance(p, tuple):
            return Constant(np.array(p[1], dtype=float)) if p[0] == "aconst" else Constant(p[1])
        return p
    if t == "pel":
        p = m.params[e[1]]
        if isinstance(p, tuple):
            return Constant(p[1][e[2]])
        return p[e[2]]
    if t in BINOPS:
        a = build_expr(m, e[1])
        b = build_expr(m, e[2])
        if not hasattr(a, "evaluate") and not hasattr(b, "evaluate"):
            a = Constant(a)
        return _binop(t, a, b)
    if t == "neg":
        a = build_expr(m, e[1])
        return -a
    if t == "fn":
        f = {
            "sin": ox.sin,
            "cos": ox.cos,
            "tan": ox.tan,
            "exp": ox.exp,
            "log": ox.log,
            "sqrt": ox.sqrt,
            "abs": ox.abs_,
            "tanh": ox.tanh,
            "sinh": ox.sinh,
            "cosh": ox.cosh,
        }[e[1]]
        return f(build_expr(m, e[2]))
    if t == "vsum":
        return build_vec(m, e[1]).sum()
    if t == "msum":
        return m.vars[e[1]].sum()  # MatrixSum: evaluates, but has no compiler case
    if t == "lincomb":
        return _coef(m, e[1]) @ build_vec(m, e[2])
    if t == "dot":
        return build_vec(m, e[1]).dot(build_vec(m, e[2]))
    if t == "quad":
        v = build_vec(m, e[1])
        Q = _coef(m, e[2])
        tag = m.spec.get("shared_q")
        if tag:
            # the user keeps ONE preallocated matrix buffer and overwrites it in place for every new
            # model (earlier users of the buffer have been dropped by then)
            buf = _SHARED_Q.get((tag, Q.shape))
            if buf is None:
                buf = _SHARED_Q[(tag, Q.shape)] = np.zeros(Q.shape)
            buf[...] = Q
            Q = buf
        return v.dot(Q @ v)
    if t == "bilin":
        # a' Q b with two (possibly different) views: a.dot(Q @ b)
        return build_vec(m, e[1]).dot(np.array(e[2], dtype=float) @ build_vec(m, e[3]))
    if t == "norm":
        v = build_vec(m, e[1])
        if hasattr(v, "norm"):
            return v.norm(e[2])
        from optyx.core.vectors import norm as _norm

        return _norm(v, e[2])
    if t == "qform":
        return ox.quadratic_form(build_vec(m, e[1]), _coef(m, e[2]))
    if t == "trace":
        return ox.trace(m.vars[e[1]])
    if t == "frob":
        return ox.frobenius_norm(m.vars[e[1]])  # evaluates, but has no compiler case
    if t == "chain":
        terms = e[2]
        acc = build_expr(m, terms[0])
        if not hasattr(acc, "evaluate"):
            acc = Constant(acc)
        for s in terms[1:]:
            acc = _binop(e[1], acc, build_expr(m, s))
        return acc
    raise ValueError(f"bad EXPR {e!r}")


def build_con(m, con):
    from optyx.core.expressions import Constant

    if con["k"] == "s":
        lhs = build_expr(m, con["lhs"])
        rhs = build_expr(m, con["rhs"])
        if not hasattr(lhs, "evaluate"):
            lhs = Constant(lhs)
        if con["sense"] == "<=":
            return lhs <= rhs
        if con["sense"] == ">=":
            return lhs >= rhs
        return lhs.eq(rhs)
    if con["k"] == "m":
        # element-wise constraints between a matrix (or its transpose) and a number / array
        import numpy as np

        M = m.vars[con["lhs"][1]]
        if con["lhs"][0] == "mT":
            M = M.T
        rhs = con["rhs"] if isinstance(con["rhs"], (int, float)) else np.array(con["rhs"], dtype=float)
        if con["sense"] == "<=":
            return M <= rhs
        if con["sense"] == ">=":
            return M >= rhs
        return M.eq(rhs)
    lhs = build_vec(m, con["lhs"])
    rhs = con["rhs"]
    if isinstance(rhs, list):
        import numpy as np

        rhs = np.array(rhs, dtype=float)  # A @ x <= b
    if con["sense"] == "<=":
        return lhs <= rhs
    if con["sense"] == ">=":
        return lhs >= rhs
    return lhs.eq(rhs)


# --------------------------------------------------------------------------
# shadow state: "what the user currently means" (plain data, no caches)
# --------------------------------------------------------------------------


def new_shadow(spec):
    pv = {}
    for d in spec.get("params", []):
        pv[d["name"]] = d["value"] if d["kind"] == "scalar" else list(d["values"])
    return {
        "spec": spec,
        "objective": None,
        "sense": "min",
        "cons": [],
        "ov": {k: dict(v) for k, v in spec.get("ov", {}).items()},
        "pv": pv,
    }


def current_spec(sh, relax_domains=False):
    """Spec describing the current logical state (param values and bound edits folded in)."""
    spec = dict(sh["spec"])
    params = []
    for d in spec.get("params", []):
        d = dict(d)
        if d["kind"] == "scalar":
            d["value"] = sh["pv"][d["name"]]
        else:
            d["values"] = list(sh["pv"][d["name"]])
        params.append(d)
    spec["params"] = params
    ov = {k: dict(v) for k, v in sh["ov"].items()}
    if relax_domains:
        vs = []
        for d in spec["vars"]:
            d = dict(d)
            dom = d.get("domain", "continuous")
            if dom == "binary":
                d["lb"], d["ub"] = 0.0, 1.0
            d["domain"] = "continuous"
            vs.append(d)
        spec["vars"] = vs
        for k in ov:
            ov[k].pop("domain", None)
    spec["ov"] = ov
    return spec


def elem_attrs(sh):
    """name -> (lb, ub, domain) for every element under the current shadow state."""
    out = {}
    for d in sh["spec"]["vars"]:
        lb, ub, dom = d.get("lb"), d.get("ub"), d.get("domain", "continuous")
        if dom == "binary":
            lb, ub = 0.0, 1.0
        for n in element_names(d):
            out[n] = [lb, ub, dom]
    for n, ov in sh["ov"].items():
        for i, attr in enumerate(("lb", "ub", "domain")):
            if attr in ov:
                out[n][i] = ov[attr]
    return out


def problem_vars(sh):
    """Names of the variables the current problem mentions (set)."""
    spec = sh["spec"]
    s = set()
    if sh["objective"] is not None:
        mentioned(spec, spec["exprs"][sh["objective"]], s)
    for c in sh["cons"]:
        s |= con_mentioned(spec, spec["cons"][c])
    return s


# --------------------------------------------------------------------------
# independent numeric semantics of the mini-AST (no optyx involved)
# --------------------------------------------------------------------------

import math as _math

_FN = {
    "sin": _math.sin, "cos": _math.cos, "tan": _math.tan, "exp": _math.exp, "log": _math.log,
    "sqrt": _math.sqrt, "abs": abs, "tanh": _math.tanh, "sinh": _math.sinh, "cosh": _math.cosh,
}


def eval_vec(spec, vec, pt, pv=None):
    t = vec[0]
    if t == "vexpr":
        return [eval_expr(spec, e, pt, pv) for e in vec[1]]
    if t == "vscale":
        return [x * vec[2] for x in eval_vec(spec, vec[1], pt, pv)]
    if t == "vshift":
        return [x + vec[2] for x in eval_vec(spec, vec[1], pt, pv)]
    if t == "matvec":
        v = eval_vec(spec, vec[2], pt, pv)
        return [sum(a * x for a, x in zip(row, v)) for row in coef_values(spec, vec[1])]
    if t == "vfn":
        return [_FN[vec[1]](x) for x in eval_vec(spec, vec[2], pt, pv)]
    if t == "vpow":
        return [x ** vec[2] for x in eval_vec(spec, vec[1], pt, pv)]
    if t == "vrsub":
        return [c - x for c, x in zip(vec[1], eval_vec(spec, vec[2], pt, pv))]
    if t == "vrdiv":
        return [c / x for c, x in zip(vec[1], eval_vec(spec, vec[2], pt, pv))]
    if t == "mvprod":
        d = var_decl(spec, vec[1])
        v = eval_vec(spec, vec[2], pt, pv)
        return [sum(pt[mel_name(d, i, j)] * v[j] for j in range(d["cols"])) for i in range(d["rows"])]
    return [pt[n] for n in vec_names(spec, vec)]


def eval_expr(spec, e, pt, pv=None):
    """Value of EXPR at point `pt` (name -> float) with parameter values `pv`."""
    t = e[0]
    if t in ("num", "npnum", "const"):
        return float(e[1])
    if t == "var":
        return pt[e[1]]
    if t == "vel":
        return pt[f"{e[1]}[{e[2]}]"]
    if t == "mel":
        return pt[mel_name(var_decl(spec, e[1]), e[2], e[3])]
    if t == "param":
        return float(pv[e[1]])
    if t == "pel":
        return float(pv[e[1]][e[2]])
    if t in BINOPS:
        a = eval_expr(spec, e[1], pt, pv)
        b = eval_expr(spec, e[2], pt, pv)
        if t == "+":
            return a + b
        if t == "-":
            return a - b
        if t == "*":
            return a * b
        if t == "/":
            return a / b
        return a**b
    if t == "neg":
        return -eval_expr(spec, e[1], pt, pv)
    if t == "fn":
        return _FN[e[1]](eval_expr(spec, e[2], pt, pv))
    if t == "vsum":
        return sum(eval_vec(spec, e[1], pt, pv))
    if t == "msum":
        d = var_decl(spec, e[1])
        return sum(pt[mel_name(d, i, j)] for i in range(d["rows"]) for j in range(d["cols"]))
    if t == "lincomb":
        return sum(c * x for c, x in zip(coef_values(spec, e[1]), eval_vec(spec, e[2], pt, pv)))
    if t == "dot":
        return sum(a * b for a, b in zip(eval_vec(spec, e[1], pt, pv), eval_vec(spec, e[2], pt, pv)))
    if t in ("quad", "qform"):
        v = eval_vec(spec, e[1], pt, pv)
        Q = coef_values(spec, e[2])
        return sum(v[i] * Q[i][j] * v[j] for i in range(len(v)) for j in range(len(v)))
    if t == "trace":
        d = var_decl(spec, e[1])
        return sum(pt[mel_name(d, i, i)] for i in range(d["rows"]))
    if t == "frob":
        d = var_decl(spec, e[1])
        return _math.sqrt(sum(pt[mel_name(d, i, j)] ** 2 for i in range(d["rows"]) for j in range(d["cols"])))
    if t == "bilin":
        a = eval_vec(spec, e[1], pt, pv)
        b = eval_vec(spec, e[3], pt, pv)
        return sum(a[i] * e[2][i][j] * b[j] for i in range(len(a)) for j in range(len(b)))
    if t == "norm":
        v = eval_vec(spec, e[1], pt, pv)
        return _math.sqrt(sum(x * x for x in v)) if e[2] == 2 else sum(abs(x) for x in v)
    if t == "chain":
        acc = eval_expr(spec, e[2][0], pt, pv)
        for s in e[2][1:]:
            b = eval_expr(spec, s, pt, pv)
            acc = {"+": acc + b, "-": acc - b, "*": acc * b}[e[1]] if e[1] != "/" else acc / b
        return acc
    raise ValueError(f"bad EXPR {e!r}")


def con_violations(spec, con, pt, pv=None):
    """List of violation amounts (>= 0) of a pool constraint at pt."""
    if con["k"] == "m":
        d = var_decl(spec, con["lhs"][1])
        R, C = (d["rows"], d["cols"]) if con["lhs"][0] == "mat" else (d["cols"], d["rows"])
        vals = []
        for i in range(R):
            for j in range(C):
                name = mel_name(d, i, j) if con["lhs"][0] == "mat" else mel_name(d, j, i)
                r = con["rhs"] if isinstance(con["rhs"], (int, float)) else con["rhs"][i][j]
                vals.append(pt[name] - r)
    elif con["k"] == "s":
        vals = [eval_expr(spec, con["lhs"], pt, pv) - eval_expr(spec, con["rhs"], pt, pv)]
    else:
        lv = eval_vec(spec, con["lhs"], pt, pv)
        rv = con["rhs"] if isinstance(con["rhs"], list) else [con["rhs"]] * len(lv)
        vals = [x - r for x, r in zip(lv, rv)]
    out = []
    for v in vals:
        if con["sense"] == "<=":
            out.append(max(0.0, v))
        elif con["sense"] == ">=":
            out.append(max(0.0, -v))
        else:
            out.append(abs(v))
    return out
