"""Property table: generator, sweep, level and evidence text per claimed property."""

from __future__ import annotations

from . import gen

COMMON_ASSUMPTIONS = [
    "SciPy and NumPy are deterministic for identical inputs in identical process state (checked by the run-twice digest self-test)",
    "the four interception points (scipy_solver.minimize, scipy.optimize.linprog looked up at call time, the `time` attribute of both solver modules) exist; their absence is reported as HARNESS-ERROR, never as a pass",
    "a forked child of a process that imported optyx but never built an expression is a 'fresh process' for optyx's purposes",
    "models are small (<= 4 variables per container, <= 30-term chains); nothing is claimed about scale",
]


def _c13_gen(r, tier):
    return gen.gen_c13(r)


PROPS = {
    "C13": {
        "gen": _c13_gen,
        "level": "exploration",
        "rule": (
            "seeded edit/solve/read histories (3-22 ops over minimize, maximize, subject_to, subject_to([..]), lb/ub edits, "
            "solve with 7 methods, reads) on one Problem with a 6-objective / 8-constraint pool; every solve/read is compared "
            "tightly (status, values, objective, message, iterations, data handed to the solver at the seam, warnings) with the "
            "same call on a from-scratch build of the current logical state in a pristine forked process.  A case is counted "
            "non-trivial/distinct by (op kind, solver method entered, outcome status or exception, cache-fill state of the Problem "
            "after the op)."
        ),
        "assumptions": COMMON_ASSUMPTIONS,
    },
}
