"""Property table: generator, sweep, level and evidence text per claimed property."""

from __future__ import annotations

from . import gen

COMMON_ASSUMPTIONS = [
    "SciPy and NumPy are deterministic for identical inputs in identical process state (checked by the run-twice digest self-test)",
    "the four interception points (scipy_solver.minimize, scipy.optimize.linprog looked up at call time, the `time` attribute of both solver modules) exist; their absence is reported as HARNESS-ERROR, never as a pass",
    "a forked child of a process that imported optyx but never built an expression is a 'fresh process' for optyx's purposes",
    "models are small (<= 4 variables per container, <= 30-term chains); nothing is claimed about scale",
]


def _c13_gen(r, tier):
    return gen.gen_c13(r)


def _c12_gen(r, tier):
    return gen.gen_c12(r)


def _c14_gen(r, tier):
    return gen.gen_c14(r, tier)


def _c06_gen(r, tier):
    return gen.gen_c06(r, tier)


def _c07_gen(r, tier):
    return gen.gen_c07(r, tier)


_PEER_RULE = (
    "one seeded problem (LP / QP / NLP pools, 40% made infeasible by a contradictory constraint pair), 1-3 solves with a method from "
    "{auto, linprog, highs, highs-ds, highs-ipm, SLSQP, trust-constr, L-BFGS-B, TNC, BFGS, CG, Newton-CG, COBYLA, Nelder-Mead, Powell}; the "
    "peer behind the solver seam is per solve: real SciPy (seeded x0/tol/maxiter), real SciPy with a truncated iteration budget, or a scripted "
    "answer drawn from the method's own (success, status, message) table with x in {what SciPy really returned, a feasible point, a point "
    "violating a constraint by >= 1e-2, a point violating a declared bound by >= 0.5 (success=True only for methods optyx passes no bounds to)}; "
    "the SLSQP->trust-constr retry entry can be scripted separately.  Distinct/non-trivial: (solver entries, peer class, x kind, returned status, "
    "values present)."
)

PROPS = {
    "C06": {
        "gen": _c06_gen,
        "level": "exploration",
        "rule": _PEER_RULE + "  Oracle: status OPTIMAL => every constraint (harness-side Constraint.violation on the returned values) and every "
        "declared bound holds within max(1e-5, 10*tol) + 1e-5*scale.",
        "assumptions": COMMON_ASSUMPTIONS + ["scripted answers are restricted to (success, status, message, x) combinations SciPy documents or was observed to produce; fun is always the objective callback's value at x"],
    },
    "C07": {
        "gen": _c07_gen,
        "level": "exploration",
        "rule": _PEER_RULE + "  Oracle: whenever values and objective_value are returned, objective_value = the user's objective expression "
        "evaluated at the returned values (1e-9 relative), keys(values) = exactly the variables the model mentions (computed from the harness's own "
        "AST), and every scalar / vector / matrix handle retrieves its values with the declared shape and position.",
        "assumptions": COMMON_ASSUMPTIONS + ["for a fixed solver answer C07 is a pure function; the simulation contributes the answer space (arbitrary points on every termination path, the retry path, cached second solves)"],
    },
    "C12": {
        "gen": _c12_gen,
        "level": "exploration",
        "rule": (
            "seeded histories over {Parameter.set / VectorParameter.set / element set, solve(method), evaluate, compile-early-call-late of "
            "compile_expression / compile_gradient / compile_jacobian / compile_hessian / CompiledExpression / compile_to_dict_function / "
            "symbolic gradient, objective and constraint edits} on models with parameters in 8 placements (target shift, objective coefficient, "
            "Hessian entry, inside exp, linear coefficient, cross-term coefficient, constraint rhs, constraint coefficient, VectorParameter elements). "
            "Every observation is compared tightly with R1 = from-scratch model with fresh Parameters holding the current values in a pristine "
            "forked process, and with R2 = the same with Constants (tight for pointwise observations; objective value at 5e-3 for optimal/optimal "
            "solves of strictly convex members with explicit SLSQP/trust-constr).  Distinct/non-trivial: (op kind, solver method entered, outcome, "
            "cache-fill state)."
        ),
        "assumptions": COMMON_ASSUMPTIONS,
    },
    "C14": {
        "gen": _c14_gen,
        "level": "exploration",
        "rule": (
            "seeded histories: a target model M (long-lived copy built before, and/or fresh copy built after) and a prefix of 1-6 adversary models "
            "that reuse M's variable/parameter names with other values, bounds, domains or structure (plus bare Parameter/Variable expressions as "
            "LRU keys), each compiled, called and solved; drop_model+gc (id reuse) and flood(k) past the (knob-shrunk or default) LRU capacities. "
            "Every observation on every model is compared tightly with the same observation on that model built alone in a pristine forked process. "
            "Distinct/non-trivial: (op kind, solver method entered, outcome, cache-fill state)."
        ),
        "assumptions": COMMON_ASSUMPTIONS,
    },
    "C13": {
        "gen": _c13_gen,
        "level": "exploration",
        "rule": (
            "seeded edit/solve/read histories (3-22 ops over minimize, maximize, subject_to, subject_to([..]), lb/ub edits, "
            "solve with 7 methods, reads) on one Problem with a 6-objective / 8-constraint pool; every solve/read is compared "
            "tightly (status, values, objective, message, iterations, data handed to the solver at the seam, warnings) with the "
            "same call on a from-scratch build of the current logical state in a pristine forked process.  A case is counted "
            "non-trivial/distinct by (op kind, solver method entered, outcome status or exception, cache-fill state of the Problem "
            "after the op)."
        ),
        "assumptions": COMMON_ASSUMPTIONS,
    },
}
