"""Property table: generator, sweep, level and evidence text per claimed property."""

from __future__ import annotations

from . import gen

COMMON_ASSUMPTIONS = [
    "SciPy and NumPy are deterministic for identical inputs in identical process state (checked by the run-twice digest self-test)",
    "the four interception points (scipy_solver.minimize, scipy.optimize.linprog looked up at call time, the `time` attribute of both solver modules) exist; their absence is reported as HARNESS-ERROR, never as a pass",
    "a forked child of a process that imported optyx but never built an expression is a 'fresh process' for optyx's purposes",
    "models are small (<= 13 variables per container, chains of up to 405 terms); nothing is claimed about scale",
    "model language: scalars, vectors, matrices (2x2 .. 3x4, symmetric or not), views (slices, strides, reversals, rows, columns, diagonals, "
    "transposes, sub-blocks), + - * / **, 10 elementary functions, sums, c@v, A@v (constant A and MatrixVariable), dot, quadratic forms (v.dot(Q@v) and "
    "quadratic_form), bilinear forms over two views, L1/L2 norms, trace, element-wise functions/powers, Parameters (scalar / vector, typed writes); "
    "one run in eight declares its variables under other names (leading underscore, numbered names, non-ASCII)",
]


def _styled(r, case):
    """One run in eight declares its variables under other names (leading underscores, numbered
    names whose natural order is not their lexicographic order, non-ASCII names)."""
    if r.random() < 0.125:
        case = gen.rename_case(case, r.choice(gen.NAME_STYLES))
    if r.random() < 0.15:
        case = gen.numpyfy_case(case, r)  # some literals arrive as np.float64
    return case


def _c13_gen(r, tier):
    return _styled(r, gen.gen_c13(r))


def _c12_gen(r, tier):
    return _styled(r, gen.gen_c12(r))


def _c14_gen(r, tier):
    return _styled(r, gen.gen_c14(r, tier))


def _c06_gen(r, tier):
    return _styled(r, gen.gen_c06(r, tier))


def _c07_gen(r, tier):
    return _styled(r, gen.gen_c07(r, tier))


_PEER_RULE = (
    "one seeded problem (LP / QP / NLP pools, 40% made infeasible by a contradictory constraint pair), 1-3 solves with a method from "
    "{auto, linprog, highs, highs-ds, highs-ipm, SLSQP, trust-constr, L-BFGS-B, TNC, BFGS, CG, Newton-CG, COBYLA, Nelder-Mead, Powell}; the "
    "peer behind the solver seam is per solve: real SciPy (seeded x0/tol/maxiter), real SciPy with a truncated iteration budget, or a scripted "
    "answer drawn from the method's own (success, status, message) table with x in {what SciPy really returned, a feasible point, a point "
    "violating a constraint by >= 1e-2, a point violating a declared bound by >= 0.5 (success=True only for methods optyx passes no bounds to)}; "
    "the SLSQP->trust-constr retry entry can be scripted separately; between solves the user may look at the model (summary / repr / variables / bounds) and "
    "solve again, a quarter of the pools mix integer / binary variables in.  Distinct/non-trivial: (solver entries, peer class, x kind, returned status, "
    "values present)."
)

def _c20_gen(r, tier):
    return _styled(r, gen.gen_c20(r, tier))


def _c20_sweep(tier):
    """Enumerate every seam interruption point of seeded scenarios:
    {entry, exit, callback 1..K} x 4 exception classes (K from a fault-free dry run)."""
    import random

    from .runner import execute
    from .world import DEFAULT_KNOBS

    nsc, cap = (2, 30) if tier == "quick" else (14, 160)
    knobs = dict(DEFAULT_KNOBS)
    made = 0
    i = 0
    have_hessian = False
    while made < nsc and i < 200:
        r = random.Random(gen.run_seed(20200, "C20-sweep", i))
        i += 1
        sc = gen.gen_c20_scenario(r)
        dry = sc["prefix"] + [sc["target"]]
        res = execute(dry, knobs)
        rec = res["log"][-1]
        evs = rec.get("events") or []
        if not evs:
            continue
        K = sum(sum((e.get("cb") or {}).values()) for e in evs)
        lp = evs[0]["seam"] == "linprog"
        if K > cap or (not lp and K == 0):
            continue
        uses_hessian = any((e.get("cb") or {}).get("hess") for e in evs)
        if made == nsc - 1 and not have_hessian and not uses_hessian and i < 150:
            continue  # the last enumerated scenario is one whose solver calls the Hessian
        have_hessian = have_hessian or uses_hessian
        made += 1
        sites = [{"site": "entry"}, {"site": "exit"}] + ([] if lp else [{"site": "cb", "k": k} for k in range(1, K + 1)])
        if len(evs) > 1:
            sites += [{"site": "entry", "entry": 1}, {"site": "exit", "entry": 1}]
        if not lp:
            # the callback itself raises part-way: every one of its first optyx line events
            kmax, jmax = (2, 6) if tier == "quick" else (min(K, 4), 10)
            sites += [{"site": "cbi", "k": k, "j": j} for k in range(1, kmax + 1) for j in range(1, jmax + 1)]
            if tier != "quick":
                # the first two callbacks line by line well past the wrappers' own lines (nested vector /
                # matrix closures); a j beyond the callback's last line is a fault-free run
                sites += [{"site": "cbi", "k": k, "j": j} for k in (1, 2) for j in range(jmax + 1, 41)]
            # the k-th compile request of this solve raises (caches / derivative callables half built)
            sites += [{"site": "compile", "k": k} for k in range(1, (7 if tier == "quick" else 13))]
            sites += [{"site": "compile", "of": of, "k": 1} for of in ("compile_hessian", "compile_jacobian")]
            # optyx's own evaluations of the compiled callables after the solver returned
            # (the post-solve feasibility check)
            sites += [{"site": "eval", "after_exit": j} for j in range(1, (3 if tier == "quick" else 7))]
            # the k-th evaluation of the compiled Hessian / Jacobian / value callables during the solve
            sites += [{"site": "eval", "of": of, "k": k} for of in ("compile_hessian", "compile_jacobian", "compile_expression")
                      for k in ((1, 2) if tier == "quick" else (1, 2, 3, 5))]
        for site in sites:
            for exc in (gen.EXC_CLASSES if site["site"] not in ("cbi", "eval", "compile") or tier != "quick" or ("of" in site and site["site"] == "eval") else ["KeyboardInterrupt", "ValueError"]):
                f = dict(site, exc=exc)
                pre = sc["prefix"]
                if site["site"] == "compile" and pre[-1][0] == "solve":
                    pre = pre[:-1]  # cold: the warm-up solve would have left the callables in the problem's cache
                ops = pre + [gen.with_fault(sc["target"], f)] + sc["suffix"]
                tag = f"sc{i - 1}:{evs[0].get('method')}:K{K}:{site['site']}{site.get('k', '')}j{site.get('j', '')}a{site.get('after_exit', '')}o{site.get('of', '')}e{site.get('entry', 0)}:{exc}"
                yield tag, {"knobs": knobs, "ops": ops}


def _c18_gen(r, tier):
    return _styled(r, gen.gen_c18(r, tier))


PROPS = {
    "C18": {
        "gen": _c18_gen,
        "sweep": gen.c18_sweep_cases,
        "level": "exploration",
        "det_quick": 4,
        "exhaustive_note": (
            "sweep part (plain enumeration, not simulation): declaration route {scalar, vector, slice, element, VectorVariable.from_numpy (whole, reversed), matrix row, column, transposed row, "
            "sub-matrix row, transpose view, sub-matrix view, diagonal of a symmetric matrix, lower-triangle element} x domain {integer, binary} x "
            "{linear, quadratic} model x method (9 in quick, all 18 in thorough) x strict {True, False, True-after-relaxed}"
        ),
        "rule": (
            "history part: the C13 edit/solve machine on pools with integer/binary variables (30-100% of declarations), domain edits, 45% strict "
            "solves: integer variables introduced by subject_to after a solve cached the variable list / LP data, strict solve right after a relaxed "
            "one on each route; models whose every expression is a reduction over ONE VectorVariable object with per-element domain edits; solves issued from "
            "bare, `python -c`/REPL-like, script-like and notebook-like caller namespaces.  Oracles: strict=True => an exception raised with ZERO solver entries at the seam, IntegerVariableError naming exactly "
            "the non-continuous mentioned variables of the shadow state; strict=False with a returned solution => a relaxation UserWarning naming "
            "exactly those variables (a relaxed solve that raises although its all-continuous twin returns is a finding), and the result (status, values, objective, data handed to the solver) equals, tightly, the solve of the same "
            "shadow state with all domains continuous (binary keeps [0,1]) in a pristine process; every element reached through every route carries "
            "the declared domain, binary => [0,1].  Distinct/non-trivial: (strict|relaxed, solver entries, outcome, cache-fill state, |D|)."
        ),
        "assumptions": COMMON_ASSUMPTIONS + ["NonLinearError / NoObjectiveError raised before any solver entry are accepted for strict=True (also 'raised before any solver ran')"],
    },
    "C20": {
        "gen": _c20_gen,
        "sweep": _c20_sweep,
        "level": "fault_enumeration",
        "exhaustive_note": (
            "sweep part: for each enumerated scenario, EVERY seam interruption point {solver entry, each of the K callback events of the "
            "fault-free run, solver exit} x {ValueError, FloatingPointError, MemoryError, KeyboardInterrupt} is injected (exhaustive at "
            "callback granularity for those scenarios), plus the first 6 (quick) / 10 (thorough) optyx line events inside the first 2 / 4 callbacks; the seeded part samples further scenarios, double faults, faults inside "
            "increased_recursion_limit, scripted callback orders and the SLSQP->trust-constr retry entry"
        ),
        "rule": (
            "a seeded problem (LP/QP/NLP, also 405-term deep trees; cold or warm caches, hess_fn present or not), one solve faulted at the solver seam "
            "(exception raised at solver entry, instead of the k-th objective/gradient/constraint/Jacobian/Hessian callback, PART-WAY INSIDE the k-th "
            "callback at the j-th line executed in optyx's compiled closures (sys.settrace during that one callback), or after SciPy returned), optionally inside "
            "increased_recursion_limit, optionally twice, then fault-free solves with the same and with a Hessian method.  Oracles: (i) if the "
            "injected exception left the solver, the call returned FAILED or propagated that exception; (ii) warnings.showwarning is the object "
            "installed before the call, warnings.filters is the same list with the same entries and sys.getrecursionlimit() is unchanged after every operation "
            "(resets of Python's once-per-location warning memory are measured with a canary warning and attributed to optyx or to SciPy/NumPy frames: probes only); (iii) every later solve/read equals the same "
            "call on the same problem built alone in a pristine process.  Distinct/non-trivial: (site, callback kind, exception class, solver "
            "method, outcome, inside-with, number of solver entries)."
        ),
        "assumptions": COMMON_ASSUMPTIONS + ["fault model = the property's: the solver or a callback raises (also part-way through the callback's own evaluation); exceptions landing in optyx's solver-module frames outside a callback (e.g. inside its own finally block) are not injected"],
    },
    "C06": {
        "gen": _c06_gen,
        "sweep": gen.c06_sweep_cases,
        "exhaustive_note": "sweep part: for each enumerated problem (1 in quick, 10 in thorough) EVERY (method, response class of that method's table, x kind) combination of the scripted peer, and the SLSQP-success-with-violation -> trust-constr retry crossed with every trust-constr class; exhaustive over the class table for those problems only",
        "level": "exploration",
        "rule": _PEER_RULE + "  Further scenario kinds: parametric constraints with Parameter.set + re-solve, LPs whose constraints repeat declared bounds "
        "that are relaxed later, badly scaled LPs (coefficients below HiGHS' 1e-9 threshold), objectives on one view object then foreign constraints, "
        "pole / undefined-region terms, bilinear forms over two views of one container, indicator (big-M) models whose relaxed switch ends 1e-7..1e-6 "
        "away from an integer, rows written as A @ x <= b, failing first solves (uncompilable constraint, compile-time "
        "fault) followed by a retry.  Oracle: status OPTIMAL => every constraint and every declared bound holds within max(1e-5, 10*tol) + 1e-5*scale, "
        "judged twice: with optyx's own constraint objects evaluated on the returned values (NaN counts as violated) and with the constraints AS "
        "WRITTEN in the spec evaluated by the harness's pure-Python semantics (violation > 1e-3).",
        "assumptions": COMMON_ASSUMPTIONS + ["scripted answers are restricted to (success, status, message, x) combinations SciPy documents or was observed to produce; fun is always the objective callback's value at x"],
    },
    "C07": {
        "gen": _c07_gen,
        "sweep": gen.c07_sweep_cases,
        "exhaustive_note": "sweep part: as C06 -- every (method, response class, x kind) of the scripted-peer table for the enumerated problems",
        "level": "exploration",
        "rule": _PEER_RULE + "  Oracle: whenever values and objective_value are returned, objective_value = the user's objective expression "
        "evaluated at the returned values (1e-9 relative; also against the objective AS WRITTEN in the spec, evaluated by the harness's own semantics, "
        "1e-6 relative; points where the objective overflows or exceeds 1e100 are outside its floating-point domain and are not judged), keys(values) = "
        "exactly the variables the model mentions (computed from the harness's own AST), and every scalar / vector / matrix handle AND view (slices incl. "
        "strided / reversed, rows, columns, diagonal, transpose, sub-matrix, on- and off-diagonal square blocks of 3x3 symmetric matrices, non-square matrices) "
        "retrieves its values with the declared shape and position.",
        "assumptions": COMMON_ASSUMPTIONS + ["for a fixed solver answer C07 is a pure function; the simulation contributes the answer space (arbitrary points on every termination path, the retry path, cached second solves)"],
    },
    "C12": {
        "gen": _c12_gen,
        "level": "exploration",
        "rule": (
            "seeded histories over {Parameter.set / VectorParameter.set / element set, solve(method), evaluate, compile-early-call-late of "
            "compile_expression / compile_gradient / compile_jacobian / compile_hessian / CompiledExpression / compile_to_dict_function / "
            "symbolic gradient, objective and constraint edits} on models with parameters in 8 placements (target shift, objective coefficient, "
            "Hessian entry, inside exp, linear coefficient, cross-term coefficient, constraint rhs, constraint coefficient, VectorParameter elements, additive terms of a "
            "405-term running balance); writes arrive as Python numbers or in a NumPy dtype (float16, float32, int8, int32, bool; always exactly representable). "
            "Every observation is compared tightly with R1 = from-scratch model with fresh Parameters holding the current values in a pristine "
            "forked process, and with R2 = the same with Constants (tight for pointwise observations; objective value at 5e-3 for optimal/optimal "
            "solves of strictly convex members with explicit SLSQP/trust-constr).  Distinct/non-trivial: (op kind, solver method entered, outcome, "
            "cache-fill state)."
        ),
        "assumptions": COMMON_ASSUMPTIONS,
    },
    "C14": {
        "gen": _c14_gen,
        "sweep": gen.c14_sweep_cases,
        "exhaustive_note": (
            "sweep part: prefix-length enumeration -- an adversary sharing variable names with the target at other positions, then EVERY number "
            "k = 0..400 (thorough; 0..48 step 3 in quick) of throw-away compilations over k distinct variable orderings, then the target observed "
            "(Jacobian and Hessian entries of a bilinear term, two solves): the wrap-around of any fixed-size table between the models falls on some k"
        ),
        "level": "exploration",
        "rule": (
            "seeded histories: a target model M (long-lived copy built before, and/or fresh copy built after) and a prefix of 1-6 adversary models "
            "that reuse M's variable/parameter names with other values, bounds, domains, operators (same tree shape) or structure, replaying M's own "
            "script (same handles / orders / methods = same cache keys), the same script with handle orders permuted inside, or their own; bare "
            "Parameter / Variable expressions and products of two variables as LRU keys; compile requests that fail (missing variable, MatrixSum); "
            "solver arguments (maxiter, tol); drop_model+gc and a churn scenario (12-30 tiny models of one degree built, solved, dropped, then models "
            "of another degree) for id() reuse; flood(k) past the (knob-shrunk or default) LRU capacities. "
            "Every observation on every model is compared tightly with the same observation on that model built alone in a pristine forked process. "
            "Distinct/non-trivial: (op kind, solver method entered, outcome, cache-fill state)."
        ),
        "assumptions": COMMON_ASSUMPTIONS,
    },
    "C13": {
        "gen": _c13_gen,
        "sweep": gen.c13_sweep_cases,
        "exhaustive_note": (
            "sweep part: ALL operation sequences of length <= 2 (quick) / <= 4 (thorough) that end in an observation, over a 12-op alphabet "
            "{minimize(lin), minimize(quad), maximize(lin'), subject_to(lin), subject_to(nonlinear), subject_to(new variable), lb edit, "
            "solve(auto|linprog|SLSQP|trust-constr), read_variables} on two fixed pools; exhaustive for that bounded space only"
        ),
        "level": "exploration",
        "rule": (
            "seeded edit/solve/read histories (3-22 ops over minimize, maximize, subject_to, subject_to([..]), a subject_to list that fails half-way, "
            "lb/ub edits, solve with 21 method choices incl. warm starts at the previous solution and solves whose cache building is hit by a "
            "compile-time fault, reads) on one Problem -- or two Problems over the same variable objects -- with a 6-objective / 8-constraint pool "
            "(also 405-term deep objectives and an uncompilable constraint); plus scenario kinds: LP objective rotation (variables leave and enter, "
            "columns move), a warm LP with single-variable rows whose bounds are relaxed / tightened / removed again and again, re-declaration of the variables under the same names with a new objective in the same Problem (8-14 rounds on deep "
            "objectives so that addresses are recycled); every solve/read is compared "
            "tightly (status, values, objective, message, iterations, data handed to the solver at the seam, warnings) with the "
            "same call on a from-scratch build of the current logical state in a pristine forked process.  A case is counted "
            "non-trivial/distinct by (op kind, solver method entered, outcome status or exception, cache-fill state of the Problem "
            "after the op)."
        ),
        "assumptions": COMMON_ASSUMPTIONS,
    },
}
