"""Seeded generators: model pools (specs) and explicit op lists per machine.

Every generator takes a `random.Random` and returns plain JSON data.  The PRNG
is never consulted after generation.
"""

from __future__ import annotations

import random

from . import spec as S

LP_METHODS = ["linprog", "highs", "highs-ds", "highs-ipm"]
NLP_CORE = ["SLSQP", "trust-constr", "L-BFGS-B"]
NLP_MORE = ["TNC", "BFGS", "CG", "Newton-CG", "COBYLA", "Nelder-Mead", "Powell"]
ALL_METHODS = ["auto"] + LP_METHODS + NLP_CORE + NLP_MORE

COEFS = [-3.0, -2.0, -1.0, -0.5, 0.5, 1.0, 1.5, 2.0, 3.0, 4.0]
POS = [0.5, 1.0, 1.5, 2.0, 3.0]
TARGETS = [-2.0, -1.0, 0.0, 0.5, 1.0, 2.0, 3.0, 5.0]
PGRID = [-3.0, -1.5, -0.5, 0.0, 0.5, 1.0, 1.0, 2.0, 3.5, 5.0]


def splitmix64(x):
    x = (x + 0x9E3779B97F4A7C15) & 0xFFFFFFFFFFFFFFFF
    z = x
    z = ((z ^ (z >> 30)) * 0xBF58476D1CE4E5B9) & 0xFFFFFFFFFFFFFFFF
    z = ((z ^ (z >> 27)) * 0x94D049BB133111EB) & 0xFFFFFFFFFFFFFFFF
    return z ^ (z >> 31)


def run_seed(root, prop, i):
    h = root & 0xFFFFFFFFFFFFFFFF
    for ch in prop.encode():
        h = splitmix64(h ^ ch)
    return splitmix64(h ^ (i & 0xFFFFFFFFFFFFFFFF))


def ref_of(spec, name):
    """Element name -> EXPR leaf."""
    for d in spec["vars"]:
        if d["kind"] == "scalar" and d["name"] == name:
            return ["var", name]
        if d["kind"] == "vector" and name.startswith(d["name"] + "["):
            return ["vel", d["name"], int(name[len(d["name"]) + 1 : -1])]
        if d["kind"] == "matrix" and name.startswith(d["name"] + "["):
            i, j = name[len(d["name"]) + 1 : -1].split(",")
            return ["mel", d["name"], int(i), int(j)]
    raise KeyError(name)


# --------------------------------------------------------------------------
# variables
# --------------------------------------------------------------------------


def gen_bounds(r, finite=0.85, positive=False):
    if positive:
        lb = r.choice([0.1, 0.5, 1.0])
        ub = lb + r.choice([1.0, 2.0, 4.0, 9.0])
        return lb, ub
    if r.random() < finite:
        lb = r.choice([-5.0, -2.0, -1.0, 0.0, 0.0, 0.5])
        ub = lb + r.choice([1.0, 2.0, 3.5, 6.0, 10.0])
        return lb, ub
    k = r.random()
    if k < 0.4:
        return r.choice([0.0, -1.0, 0.5]), None
    if k < 0.7:
        return None, r.choice([1.0, 4.0, 10.0])
    return None, None


def gen_vars(r, layout=None, int_frac=0.0, positive=False):
    layout = layout or r.choice(["A", "A", "B", "B", "C", "D", "E"])
    vs = []

    def dom():
        if r.random() < int_frac:
            return r.choice(["integer", "binary", "integer"])
        return "continuous"

    def decl(kind, name, **kw):
        lb, ub = gen_bounds(r, positive=positive)
        d = {"kind": kind, "name": name, "lb": lb, "ub": ub, "domain": dom()}
        d.update(kw)
        if kind == "vector" and r.random() < 0.15:
            d["via"] = "from_numpy"  # VectorVariable.from_numpy(name, data, ...)
        if d["domain"] == "binary" and r.random() < 0.5:
            d["lb"], d["ub"] = None, None  # else: binary declared with explicit (wider) bounds
        if d["domain"] == "integer" and r.random() < 0.12:
            d["lb"] = d["ub"] = r.choice([1.0, 2.0, 2.5, 0.5])  # pinned by its bounds (also to a fractional value)
        vs.append(d)

    if layout == "A":
        for n in ["x", "y", "z"][: r.choice([2, 3, 3])]:
            decl("scalar", n)
    elif layout == "B":
        decl("vector", "v", n=r.choice([2, 3, 4]))
        decl("scalar", "x")
    elif layout == "C":
        n = r.choice([2, 3])
        decl("vector", "v", n=n)
        decl("vector", "u", n=n)
    elif layout == "D":
        decl("matrix", "A", rows=2, cols=2, symmetric=r.random() < 0.4)
        decl("scalar", "x")
    elif layout == "F":
        decl("vector", "v", n=r.choice([11, 12, 13]))  # more than ten elements
        decl("scalar", "x")
    elif layout == "G":
        # a 3x3 (or 3x4 / 2x3) matrix: off-diagonal blocks, non-square shapes
        sym = r.random() < 0.5
        rows, cols = (3, 3) if sym else r.choice([(3, 3), (3, 4), (2, 3)])
        decl("matrix", "A", rows=rows, cols=cols, symmetric=sym)
        decl("scalar", "x")
    else:
        decl("vector", "v", n=r.choice([3, 4]))
        decl("scalar", "x")
        decl("scalar", "y")
    # a spare variable that only some constraints mention
    decl("scalar", "w")
    return vs


def vec_handles(spec_vars):
    """VEC forms available for the declared variables: (VEC, element names)."""
    out = []
    tmp = {"vars": spec_vars}
    for d in spec_vars:
        if d["kind"] == "vector":
            out.append(["vec", d["name"]])
            out.append(["vrev", d["name"]])
            if d["n"] >= 3:
                out.append(["vslice", d["name"], 0, 2])
                out.append(["vslice", d["name"], 1, d["n"]])
                out.append(["vstride", d["name"], 2])
        elif d["kind"] == "matrix":
            out.append(["mrow", d["name"], 0])
            out.append(["mcol", d["name"], 1])
            if d["rows"] == d["cols"]:
                out.append(["mdiag", d["name"]])
    return [(v, S.vec_names(tmp, v)) for v in out]


# --------------------------------------------------------------------------
# expressions
# --------------------------------------------------------------------------


def lin_terms(r, names, kmin=1, kmax=4, sp=None):
    if sp is not None and r.random() < 0.35:
        # a whole vector handle (so that c @ v, v.sum(), c @ (v + k) renderings apply)
        vhs = [nm for _, nm in vec_handles(sp["vars"]) if all(n in names for n in nm)]
        if vhs:
            pick = list(r.choice(vhs))
            rest = [n for n in names if n not in pick]
            if rest and r.random() < 0.4:
                pick.append(r.choice(rest))
            ones = r.random() < 0.3
            return [(1.0 if ones else r.choice(COEFS), n) for n in pick]
    k = min(len(names), r.randint(kmin, kmax))
    pick = r.sample(names, k)
    return [(r.choice(COEFS), n) for n in pick]


def render_linear(r, sp, terms, const=0.0, deep=0):
    """Σ c·e + const in a seeded syntactic form."""
    vhs = vec_handles(sp["vars"])
    tnames = [n for _, n in terms]
    parts = []
    used = set()
    # try to express a block through a vector handle
    r.shuffle(vhs)
    for vec, names in vhs:
        if all(n in tnames for n in names) and not (set(names) & used) and r.random() < 0.7:
            cs = [next(c for c, n in terms if n == nm) for nm in names]
            if r.random() < 0.3:
                # coefficients times a shifted / scaled vector expression: c @ (x + k), c @ (2 * x)
                inner = ["vshift", vec, r.choice([-1.0, 0.5, 1.0, 2.0])] if r.random() < 0.7 else ["vscale", vec, r.choice([0.5, 2.0])]
                parts.append(["lincomb", cs, inner])
                used |= set(names)
                continue
            if r.random() < 0.15 and len(cs) >= 2:
                # the same block written through a constant matrix: 1' (A @ v), with A's rows adding up to cs
                # (even-index coefficients in row 0, odd-index ones in row 1), or w' (A @ v) with a third zero row
                A = [[c if j % 2 == i else 0.0 for j, c in enumerate(cs)] for i in range(2)]
                if r.random() < 0.5:
                    parts.append(["vsum", ["matvec", A, vec]])
                else:
                    parts.append(["lincomb", [1.0, 1.0, r.choice([0.0, 2.0])], ["matvec", A + [[0.0] * len(cs)], vec]])
                used |= set(names)
                continue
            if vec[0] == "mdiag" and all(c == 1.0 for c in cs) and r.random() < 0.5:
                parts.append(["trace", vec[1]])
                used |= set(names)
                continue
            if all(c == 1.0 for c in cs) or r.random() < 0.25:
                if all(c == 1.0 for c in cs):
                    parts.append(["vsum", vec])
                else:
                    parts.append(["lincomb", cs, vec])
            else:
                parts.append(["lincomb", cs, vec])
            used |= set(names)
    for c, n in terms:
        if n in used:
            continue
        leaf = ref_of(sp, n)
        k = r.random()
        if c == 1.0 and k < 0.5:
            parts.append(leaf)
        elif c == -1.0 and k < 0.3:
            parts.append(["neg", leaf])
        elif k < 0.72:
            parts.append(["*", ["num", c], leaf])
        elif k < 0.86:
            parts.append(["*", leaf, ["num", c]])
        elif k < 0.94:
            parts.append(["*", ["const", c], leaf])
        elif k < 0.97:
            # a coefficient that is itself a small constant expression: (Constant(c/2) * 2) * x
            parts.append(["*", ["*", ["const", c / 2.0], ["num", 2.0]], leaf])
        else:
            parts.append(["*", ["neg", ["const", -c]], leaf])
    if const != 0.0 or r.random() < 0.1:
        parts.insert(r.randint(0, len(parts)), ["num", const])
    if parts[0][0] == "num" and len(parts) > 1:
        parts[0], parts[1] = parts[1], parts[0]
    for _ in range(deep):
        parts.append(["num", 0.0])
    if len(parts) == 1:
        return parts[0] if parts[0][0] != "num" else ["const", parts[0][1]]
    if r.random() < 0.5 or deep:
        return ["chain", "+", parts]
    acc = parts[0]
    for p in parts[1:]:
        if r.random() < 0.8:
            acc = ["+", acc, p]
        else:
            acc = ["+", p, acc]
    return acc


def gen_quadratic(r, sp, names, params=None):
    """Strictly convex separable quadratic (+ optional small cross term)."""
    k = min(len(names), r.randint(1, 4))
    pick = r.sample(names, k)
    parts = []
    for n in pick:
        w = r.choice(POS)
        t = r.choice(TARGETS)
        leaf = ref_of(sp, n)
        tt = ["num", t]
        if params and r.random() < 0.5:
            tt = r.choice(params)
        sq = ["**", ["-", leaf, tt], ["num", 2]]
        parts.append(sq if w == 1.0 else ["*", ["num", w], sq])
    if len(pick) >= 2 and r.random() < 0.3:
        parts.append(["*", ["*", ["num", 0.25], ref_of(sp, pick[0])], ref_of(sp, pick[1])])
    if r.random() < 0.4:
        parts.append(["num", r.choice([-4.0, 1.0, 2.5, 7.0])])
    return parts[0] if len(parts) == 1 else ["chain", "+", parts]


def view_pairs(sp):
    """Pairs of DIFFERENT views of one container that have the same length (and, as it happens,
    the same generated name): full-range slice vs reversed view, neighbouring partial row views."""
    out = []
    for d in sp["vars"]:
        if d["kind"] == "vector" and d["n"] >= 2:
            out.append((["vslice", d["name"], 0, d["n"]], ["vrev", d["name"]]))
            if d["n"] >= 3:
                out.append((["vslice", d["name"], 0, d["n"] - 1], ["vslice", d["name"], 1, d["n"]]))
        elif d["kind"] == "matrix" and d["cols"] >= 2:
            out.append((["mrowslice", d["name"], 0, 0, d["cols"] - 1], ["mrowslice", d["name"], 0, 1, d["cols"]]))
    return out


def gen_bilinear(r, sp):
    """a' Q b over two different views of one container."""
    vps = view_pairs(sp)
    if not vps:
        return None
    a, b = r.choice(vps)
    n = S.vec_len(sp, a)
    Q = [[0.0] * n for _ in range(n)]
    for i in range(n):
        Q[i][i] = r.choice([1.0, 1.0, 2.0])
    if n >= 2 and r.random() < 0.4:
        Q[0][1] = r.choice([0.5, -0.5])
    return ["bilin", a, Q, b]


def gen_vecquad(r, sp):
    if r.random() < 0.2:
        e = gen_bilinear(r, sp)
        if e is not None:
            names = sorted(S.mentioned(sp, e), key=S.natural_key)
            return ["+", e, gen_quadratic(r, sp, names)]
    vhs = vec_handles(sp["vars"])
    if not vhs:
        return None
    vec, names = r.choice(vhs)
    n = len(names)
    k = r.random()
    if k < 0.35:
        e = ["dot", vec, vec]
    elif k < 0.7:
        Q = [[0.0] * n for _ in range(n)]
        for i in range(n):
            Q[i][i] = r.choice([1.0, 2.0, 3.0])
        if n >= 2 and r.random() < 0.5:
            Q[0][1] = Q[1][0] = 0.5
        e = ["quad", vec, Q]
    elif k < 0.8:
        e = ["dot", ["vshift", vec, -r.choice([0.5, 1.0, 2.0])], ["vshift", vec, -1.0]]
    elif k < 0.9:
        # squared distance to a point, with the point written first: (c - v).(c - v)
        c = [r.choice(TARGETS) for _ in range(n)]
        inner = ["vrsub", c, vec if r.random() < 0.7 else ["vscale", vec, 2.0]]
        e = ["dot", inner, inner]
    else:
        Q = [[0.0] * n for _ in range(n)]
        for i in range(n):
            Q[i][i] = r.choice([1.0, 2.0, 3.0])
        if n >= 2 and r.random() < 0.5:
            Q[0][1] = r.choice([0.5, 1.0])  # not symmetric as written
        e = ["qform", vec if r.random() < 0.5 else ["vshift", vec, -r.choice([0.5, 1.0])], Q]
    lin = render_linear(r, sp, lin_terms(r, names, 1, 2), r.choice([0.0, 0.0, 3.0]))
    return ["+", e, lin] if r.random() < 0.7 else ["-", e, lin]


def gen_nonlinear(r, sp, names, positive_names, params=None):
    base = gen_quadratic(r, sp, names, params)
    n = r.choice(names)
    leaf = ref_of(sp, n)
    k = r.random()
    vhs = vec_handles(sp["vars"])
    if vhs and r.random() < 0.18:
        vec, _ = r.choice(vhs)
        mats = [d for d in sp["vars"] if d["kind"] == "matrix"]
        j = r.random()
        if j < 0.25:
            extra = ["norm", ["vshift", vec, -r.choice([0.5, 1.5])], r.choice([1, 2, 2])]
        elif j < 0.4:
            extra = ["norm", vec, r.choice([1, 2])]
        elif j < 0.6:
            extra = ["vsum", ["vfn", r.choice(["exp", "cosh", "tanh"]), ["vscale", vec, 0.5]]]
        elif j < 0.8:
            extra = ["vsum", ["vpow", ["vshift", vec, -r.choice([0.5, 1.0])], r.choice([2, 4])]]
        elif mats and S.vec_len(sp, vec) == mats[0]["cols"] and [v for v, nm in vhs if len(nm) == mats[0]["rows"]]:
            d = mats[0]
            other = [v for v, nm in vhs if len(nm) == d["rows"]]
            extra = ["*", ["num", 0.1], ["dot", ["mvprod", d["name"], vec], r.choice(other)]]
        else:
            n = S.vec_len(sp, vec)
            extra = ["dot", ["matvec", [[1.0 if i == j2 else (0.5 if j2 == i + 1 else 0.0) for j2 in range(n)] for i in range(n)], vec], vec]
        return ["+", base, extra]
    if r.random() < 0.12:
        # a pole or a domain edge inside the box: solvers step onto it and terminate abnormally
        extra = r.choice([["/", ["num", r.choice([1.0, -2.0])], leaf], ["fn", "log", leaf], ["fn", "sqrt", leaf],
                          ["/", ["num", 1.0], ["-", leaf, ["num", 0.5]]]])
    elif k < 0.25:
        extra = ["fn", "exp", ["*", ["num", 0.5], leaf]]
    elif k < 0.45:
        extra = ["**", leaf, ["num", 4]]
    elif k < 0.6 and positive_names:
        extra = ["neg", ["fn", "log", ref_of(sp, r.choice(positive_names))]]
    elif k < 0.7 and positive_names:
        extra = ["neg", ["fn", "sqrt", ref_of(sp, r.choice(positive_names))]]
    elif k < 0.85:
        extra = ["fn", "cosh", leaf]
    else:
        m = r.choice(names)
        extra = ["*", ["*", leaf, ref_of(sp, m)], ["num", 0.1]]
    return ["+", base, extra]


def positive_elems(sp):
    out = []
    for d in sp["vars"]:
        if d.get("lb") is not None and d["lb"] > 0 and d.get("domain", "continuous") == "continuous":
            out.extend(S.element_names(d))
    return out


# --------------------------------------------------------------------------
# constraints
# --------------------------------------------------------------------------


def gen_lin_con(r, sp, names, sense=None):
    terms = lin_terms(r, names, 1, 3, sp)
    rhs = r.choice([-2.0, 0.0, 0.5, 1.0, 2.0, 3.0, 6.0])
    lhs = render_linear(r, sp, terms, 0.0 if r.random() < 0.8 else r.choice([1.0, -1.0]))
    sense = sense or r.choice(["<=", ">=", "<=", ">=", "=="])
    if r.random() < 0.15 and len(names) >= 2:
        # rhs is an expression too
        rr = render_linear(r, sp, lin_terms(r, names, 1, 1), rhs)
        return {"k": "s", "lhs": lhs, "sense": sense, "rhs": rr}
    return {"k": "s", "lhs": lhs, "sense": sense, "rhs": ["num", rhs]}


def gen_vec_con(r, sp):
    vhs = vec_handles(sp["vars"])
    if not vhs:
        return None
    vec, names = r.choice(vhs)
    sense = r.choice(["<=", ">="])
    if r.random() < 0.3 and len(names) >= 2:
        # A @ v <= b / A @ v >= b with a constant array and a vector of right-hand sides
        rows = r.choice([1, 2, 2, 3])
        A = [[r.choice([0.0, 1.0, 1.0, 2.0, -1.0, 0.5]) for _ in names] for _ in range(rows)]
        if r.random() < 0.3:
            A[-1] = [0.0] * len(names)  # an empty row: 0 <= b (or 0 >= b)
        b = [r.choice([2.0, 3.0, 6.0, 8.0]) if sense == "<=" else r.choice([-2.0, 0.0, 0.5, 1.0]) for _ in range(rows)]
        return {"k": "v", "lhs": ["matvec", A, vec if r.random() < 0.8 else ["vshift", vec, r.choice([-1.0, 0.5])]], "sense": sense, "rhs": b}
    if r.random() < 0.3:
        # exactly the declared bound, written again as explicit constraints (x >= 0 on a vector with lb=0)
        at = S.elem_attrs(S.new_shadow(sp))[names[0]]
        if sense == ">=" and at[0] is not None:
            return {"k": "v", "lhs": vec, "sense": ">=", "rhs": at[0]}
        if sense == "<=" and at[1] is not None:
            return {"k": "v", "lhs": vec, "sense": "<=", "rhs": at[1]}
    return {"k": "v", "lhs": vec, "sense": sense, "rhs": r.choice([0.0, 0.25, 0.5]) if sense == ">=" else r.choice([2.0, 3.0, 8.0])}


def gen_nl_con(r, sp, names):
    k = r.random()
    a = ref_of(sp, r.choice(names))
    b = ref_of(sp, r.choice(names))
    if r.random() < 0.15:
        e = gen_bilinear(r, sp)
        if e is not None:
            return {"k": "s", "lhs": e, "sense": r.choice([">=", "<="]), "rhs": ["num", r.choice([0.5, 1.0, 2.0])]}
    vhs = vec_handles(sp["vars"])
    if vhs and r.random() < 0.12:
        vec, vn = r.choice(vhs)
        c = [r.choice(TARGETS) for _ in vn]
        return {"k": "s", "lhs": ["norm", ["vrsub", c, vec], r.choice([1, 2, 2])], "sense": r.choice([">=", "<=", "<="]), "rhs": ["num", r.choice([0.5, 1.0, 2.0])]}
    if r.random() < 0.3:
        # a constraint that is undefined (NaN) or infinite on part of the box
        f = r.choice(["log", "sqrt", "log"])
        return {"k": "s", "lhs": ["fn", f, a], "sense": ">=", "rhs": ["num", r.choice([-5.0, -1.0, 0.0, 0.5])]}
    if k < 0.4:
        e = ["+", ["**", a, ["num", 2]], ["**", b, ["num", 2]]]
        return {"k": "s", "lhs": e, "sense": "<=", "rhs": ["num", r.choice([1.0, 4.0, 9.0, 25.0])]}
    if k < 0.7:
        return {"k": "s", "lhs": ["*", a, b], "sense": r.choice(["<=", ">="]), "rhs": ["num", r.choice([0.5, 1.0, 2.0])]}
    if k < 0.85:
        return {"k": "s", "lhs": ["fn", "exp", ["*", ["num", 0.5], a]], "sense": "<=", "rhs": ["num", r.choice([2.0, 5.0])]}
    return {"k": "s", "lhs": ["+", ["**", a, ["num", 2]], b], "sense": "==", "rhs": ["num", r.choice([1.0, 2.0])]}


# --------------------------------------------------------------------------
# pools
# --------------------------------------------------------------------------


def gen_pool(r, kinds=("lin", "quad", "nl"), layout=None, int_frac=0.0, nobj=5, ncon=7, params=0,
             positive=False, deep=0, name="m"):
    """A model pool: variables, parameters, objective exprs o*, constraints c*."""
    sp = {"name": name, "vars": gen_vars(r, layout, int_frac, positive), "params": [], "exprs": {}, "cons": {}}
    if r.random() < 0.5:
        sp["share_views"] = True
    pleaves = []
    for i in range(params):
        if r.random() < 0.7 or i == 0:
            sp["params"].append({"kind": "scalar", "name": f"p{i}", "value": r.choice(PGRID)})
            pleaves.append(["param", f"p{i}"])
        else:
            n = r.choice([2, 3])
            sp["params"].append({"kind": "vector", "name": f"q{i}", "n": n, "values": [r.choice(PGRID) for _ in range(n)]})
            pleaves.extend(["pel", f"q{i}", j] for j in range(n))
    names_all = S.all_element_names(sp)
    core = [n for n in names_all if n != "w"]
    pos = positive_elems(sp)
    okinds = {}
    for i in range(nobj):
        kind = kinds[i % len(kinds)] if i < len(kinds) else r.choice(kinds)
        if kind == "lin":
            e = render_linear(r, sp, lin_terms(r, core, 1, 4, sp), r.choice([0.0, 0.0, 5.0, -2.5]), deep=deep if r.random() < 0.5 else 0)
        elif kind == "pole":
            # objective with a pole / domain edge that the box does not exclude (1/x + x on [-1, 3])
            at = S.elem_attrs(S.new_shadow(sp))
            strad = [c for c in core if at[c][0] is not None and at[c][1] is not None and at[c][0] < 0 < at[c][1]]
            n = r.choice(strad or core)
            leaf = ref_of(sp, n)
            sing = r.choice([["/", ["num", r.choice([1.0, 2.0, -1.0])], leaf], ["neg", ["fn", "log", leaf]], ["/", ["num", 1.0], ["-", leaf, ["num", 0.5]]]])
            rest = render_linear(r, sp, lin_terms(r, core, 1, 2), 0.0)
            e = ["+", sing, rest] if r.random() < 0.6 else ["+", sing, leaf]
        elif kind == "quad":
            e = gen_vecquad(r, sp) if r.random() < 0.35 else None
            if e is None:
                e = gen_quadratic(r, sp, core, pleaves or None)
        else:
            e = gen_nonlinear(r, sp, core, [p for p in pos if p != "w"], pleaves or None)
        sp["exprs"][f"o{i}"] = e
        okinds[f"o{i}"] = kind
    ckinds = {}
    for i in range(ncon):
        k = r.random()
        c = None
        kind = "lin"
        if "nl" in kinds and k < 0.2:
            c = gen_nl_con(r, sp, core)
            kind = "nl"
        elif k < 0.35:
            c = gen_vec_con(r, sp)
            kind = "vec"
        elif k < 0.5:
            c = gen_lin_con(r, sp, core + ["w"])
            if "w" in S.con_mentioned(sp, c):
                kind = "newvar"
        if c is None:
            c = gen_lin_con(r, sp, core)
            kind = "lin"
        sp["cons"][f"c{i}"] = c
        ckinds[f"c{i}"] = kind
    mats = [d for d in sp["vars"] if d["kind"] == "matrix"]
    if mats:
        # element-wise matrix constraints against a NON-symmetric array (also for symmetric matrices)
        d = mats[0]
        ub = d["ub"] if d.get("ub") is not None else 4.0
        lb = d["lb"] if d.get("lb") is not None else -4.0
        side = r.choice(["mat", "mat", "mT"])
        shape = (d["rows"], d["cols"]) if side == "mat" else (d["cols"], d["rows"])
        B = [[lb + (ub - lb) * r.choice([0.25, 0.5, 0.75, 1.0]) for _ in range(shape[1])] for _ in range(shape[0])]
        sp["cons"]["cm"] = {"k": "m", "lhs": [side, d["name"]], "sense": "<=", "rhs": B}
        ckinds["cm"] = "lin"
        sp["cons"]["cn"] = {"k": "m", "lhs": ["mat", d["name"]], "sense": ">=", "rhs": lb + 0.25 * (ub - lb)}
        ckinds["cn"] = "lin"
    if mats and mats[0]["rows"] == mats[0]["cols"] and r.random() < 0.5:
        sp["cons"]["ct"] = {"k": "s", "lhs": ["trace", mats[0]["name"]], "sense": r.choice(["<=", ">="]), "rhs": ["num", r.choice([1.0, 2.0, 3.0])]}
        ckinds["ct"] = "lin"
    vecs = [d for d in sp["vars"] if d["kind"] == "vector"]
    if (vecs or mats) and r.random() < 0.2:
        # objectives the library can build and evaluate but not analyse / compile (sum of an element-wise
        # power or function of a plain vector; Frobenius norm): every solve must raise, every time, and
        # leave the model usable
        if vecs and (not mats or r.random() < 0.7):
            v = ["vec", vecs[0]["name"]]
            sp["exprs"]["ou"] = ["vsum", ["vpow", v, 2]] if r.random() < 0.5 else ["vsum", ["vfn", r.choice(["exp", "cosh"]), v]]
        else:
            sp["exprs"]["ou"] = ["+", ["frob", mats[0]["name"]], ["num", 1.0]]
        okinds["ou"] = "nl"
    if mats and r.random() < 0.6:
        # evaluates fine but has no compiler case: every solve that compiles it must raise, every time
        sp["cons"]["cu"] = {"k": "s", "lhs": ["msum", mats[0]["name"]], "sense": "<=", "rhs": ["num", r.choice([1.0, 3.0, 6.0])]}
        ckinds["cu"] = "nl"
    sp["expr_order"] = sorted(sp["exprs"])
    sp["con_order"] = sorted(sp["cons"])
    meta = {"okinds": okinds, "ckinds": ckinds}
    return sp, meta


SLOW_METHODS = ("CG", "BFGS", "Nelder-Mead", "Powell", "TNC", "Newton-CG", "COBYLA")


def cap_iterations(r, a):
    """Derivative-free / unconstrained methods can spend 1e5 evaluations on an ill-posed model;
    the public maxiter argument bounds the cost (identically for the run and its reference)."""
    if a.get("method") in SLOW_METHODS and "maxiter" not in a:
        a["maxiter"] = r.choice([40, 80, 150])
    elif a.get("method") in ("trust-constr", "auto") and "maxiter" not in a and r.random() < 0.85:
        # trust-constr (also what auto picks for nonlinear models) runs 1000 costly iterations on an
        # infeasible or unbounded model; most runs bound it, some keep the default
        a["maxiter"] = r.choice([120, 250])
    return a


def gen_knobs(r, p_default=0.5):
    from .world import DEFAULT_KNOBS

    k = dict(DEFAULT_KNOBS)
    if r.random() < p_default:
        return k
    for key in ("thr_autodiff", "thr_compiler", "thr_analysis", "thr_expressions"):
        k[key] = r.choice([400, 400, 2, 3, 6, 25])
    k["lru_compile"] = r.choice([1024, 4, 16, 64])
    k["lru_gradient"] = r.choice([4096, 4, 16, 64])
    k["lru_degree"] = r.choice([1024, 4, 16, 64])
    return k


def gen_point(r, sp, names=None, positive=False):
    names = names if names is not None else S.all_element_names(sp)
    attrs = S.elem_attrs(S.new_shadow(sp))
    pt = {}
    for n in names:
        lb, ub, _ = attrs[n]
        lo = lb if lb is not None else -3.0
        hi = ub if ub is not None else lo + 6.0
        if lb is None and ub is not None:
            lo = ub - 6.0
        x = lo + (hi - lo) * r.choice([0.125, 0.25, 0.375, 0.5, 0.625, 0.75, 0.875])
        pt[n] = float(x)
    return pt


# --------------------------------------------------------------------------
# C13 history machine (also carries C18's history facet)
# --------------------------------------------------------------------------

SITE_KINDS = ["main", "main", "script", "nb"]
C13_METHODS = ["auto", "auto", "auto", "linprog", "linprog", "highs-ds", "highs-ipm", "highs", "SLSQP", "SLSQP", "trust-constr", "trust-constr",
               "L-BFGS-B", "L-BFGS-B", "COBYLA", "TNC", "BFGS", "Newton-CG", "Nelder-Mead", "Powell", "CG"]


def gen_lp_rotation(r):
    """An LP whose objective is replaced again and again by other linear objectives over small,
    different variable subsets (variables leave and enter the model, columns move), with LP-route
    solves in between; constraints stay."""
    from .world import DEFAULT_KNOBS

    sp = {"name": "rot", "vars": gen_vars(r, r.choice(["A", "A", "B", "E"])), "params": [], "exprs": {}, "cons": {}}
    names = S.all_element_names(sp)
    for i in range(6):
        sub = r.sample(names, r.choice([1, 2, 2, 3]))
        sp["exprs"][f"o{i}"] = render_linear(r, sp, [(r.choice(COEFS), n) for n in sub], r.choice([0.0, 0.0, 2.0]))
    for i in range(4):
        sub = r.sample(names, r.choice([1, 1, 2]))
        sp["cons"][f"c{i}"] = {"k": "s", "lhs": render_linear(r, sp, [(r.choice(POS), n) for n in sub]), "sense": r.choice(["<=", ">="]), "rhs": ["num", r.choice([0.5, 1.0, 2.0, 3.0])]}
    for vec, vnames in [vh for vh in vec_handles(sp["vars"]) if vh[0][0] == "vec"][:1]:
        # float coefficient array times the whole vector, written as >= (rows that get sign-flipped)
        sp["cons"]["cw"] = {"k": "s", "lhs": ["lincomb", [r.choice(POS) for _ in vnames], vec], "sense": ">=", "rhs": ["num", r.choice([0.5, 1.0, 2.0])]}
        sp["exprs"]["ow"] = ["lincomb", [r.choice(COEFS) for _ in vnames], vec]
    sp["expr_order"] = sorted(sp["exprs"])
    sp["con_order"] = sorted(sp["cons"])
    ops = [["new_model", 0, sp], [r.choice(["minimize", "maximize"]), 0, "o0"]]
    for c in r.sample(sorted(sp["cons"]), r.choice([1, 2, 2, 3])):
        ops.append(["subject_to", 0, c])
    if "cw" in sp["cons"] and r.random() < 0.6:
        ops.append(["subject_to", 0, "cw"])
    lpm = ["auto", "auto", "linprog", "highs-ds", "highs-ipm", "highs"]
    ops.append(["solve", 0, {"method": r.choice(lpm)}])
    for _ in range(r.randint(3, 8)):
        ops.append([r.choice(["minimize", "maximize"]), 0, r.choice(sorted(sp["exprs"]))])
        if r.random() < 0.15:
            ops.append(["subject_to", 0, r.choice(sorted(sp["cons"]))])
        if r.random() < 0.2:
            ops.append([r.choice(["read_variables", "read_bounds"]), 0])
        ops.append(["solve", 0, {"method": r.choice(lpm + ["SLSQP"])}])
    return {"knobs": dict(DEFAULT_KNOBS), "ops": ops}


def gen_lp_bounds(r):
    """A warm LP (objective pressing every variable against its box, single-variable rows next to
    ordinary ones) whose *bounds* are edited again and again -- relaxed, tightened, removed, set
    back -- with LP-route solves in between and no other edit, so that whatever was extracted at the
    first solve stays cached: only the bounds of the moment may count."""
    from .world import DEFAULT_KNOBS

    sp = {"name": "lpb", "vars": gen_vars(r, r.choice(["A", "A", "B", "E", None])), "params": [], "exprs": {}, "cons": {}}
    names = [n for n in S.all_element_names(sp) if n != "w"]
    at = S.elem_attrs(S.new_shadow(sp))
    use = r.sample(names, min(len(names), r.choice([2, 3, 4])))
    sp["exprs"]["o0"] = render_linear(r, sp, [(r.choice(COEFS), n) for n in use], r.choice([0.0, 0.0, 2.0]))
    sp["exprs"]["o1"] = render_linear(r, sp, [(-r.choice(POS), n) for n in use])
    for i, n in enumerate(use):
        # single-variable rows: looser than, equal to or tighter than the declared bound of the moment
        sense = r.choice(["<=", ">="])
        ref = at[n][1] if sense == "<=" else at[n][0]
        ref = ref if ref is not None else (6.0 if sense == "<=" else -6.0)
        rhs = ref + r.choice([-1.0, 0.0, 2.0, 5.0]) * (1 if sense == "<=" else -1)
        lhs = ref_of(sp, n) if r.random() < 0.6 else ["*", ["num", r.choice([2.0, 0.5])], ref_of(sp, n)]
        sp["cons"][f"s{i}"] = {"k": "s", "lhs": lhs, "sense": sense, "rhs": ["num", rhs]}
    for i in range(2):
        sub = r.sample(use, min(len(use), 2))
        sp["cons"][f"c{i}"] = {"k": "s", "lhs": render_linear(r, sp, [(r.choice(POS), n) for n in sub]), "sense": "<=", "rhs": ["num", r.choice([4.0, 8.0, 12.0])]}
    sp["expr_order"] = sorted(sp["exprs"])
    sp["con_order"] = sorted(sp["cons"])
    lpm = ["auto", "auto", "linprog", "highs-ds", "highs"]
    ops = [["new_model", 0, sp], [r.choice(["minimize", "maximize"]), 0, r.choice(["o0", "o1"])]]
    for c in r.sample(sorted(sp["cons"]), r.randint(1, len(sp["cons"]))):
        ops.append(["subject_to", 0, c])
    ops.append(["solve", 0, {"method": r.choice(lpm)}])
    for _ in range(r.randint(2, 6)):
        e = r.choice(use)
        lb, ub, _dom = at[e]
        k = r.random()
        if k < 0.5:
            side = r.choice([0, 1])
            cur = at[e][side]
            if cur is None:
                nb = r.choice([-3.0, 0.0]) if side == 0 else r.choice([3.0, 6.0])
            else:
                nb = cur + r.choice([1.0, 3.0, 6.0]) * (-1 if side == 0 else 1)  # relax
            if r.random() < 0.15:
                nb = None
        else:
            side = r.choice([0, 1])
            other = at[e][1 - side]
            cur = at[e][side]
            base = cur if cur is not None else (-4.0 if side == 0 else 4.0)
            nb = base + r.choice([0.5, 1.0, 2.0]) * (1 if side == 0 else -1)  # tighten
            if other is not None and ((side == 0 and nb > other) or (side == 1 and nb < other)):
                nb = other
        ops.append(["set_lb" if side == 0 else "set_ub", 0, e, nb])
        at[e][side] = nb
        if r.random() < 0.15:
            ops.append([r.choice(["read_bounds", "read_variables"]), 0])
        if r.random() < 0.15:
            ops.append(["maximize" if r.random() < 0.5 else "minimize", 0, r.choice(["o0", "o1"])])
        ops.append(["solve", 0, {"method": r.choice(lpm + ["SLSQP"])}])
    return {"knobs": dict(DEFAULT_KNOBS), "ops": ops}


def gen_single_source(r):
    """Objective (and first constraints) built on ONE view object of one vector -- the fast path of
    variable discovery keeps the view's own order (reversed, strided) -- then constraints that are
    not built from that object (general path: sorted order), with solves in between."""
    from .world import DEFAULT_KNOBS

    n = r.choice([3, 4])
    lb, ub = gen_bounds(r, finite=1.0)
    view = r.choice([["vrev", "v"], ["vrev", "v"], ["vec", "v"], ["vstride", "v", 2], ["vslice", "v", 1, n]])
    sp = {"name": "ss", "share_views": True, "vars": [{"kind": "vector", "name": "v", "n": n, "lb": lb, "ub": ub, "domain": "continuous"},
                                                       {"kind": "scalar", "name": "x", "lb": 0.0, "ub": 3.0, "domain": "continuous"}],
          "params": [], "exprs": {}, "cons": {}}
    m = len(S.vec_names(sp, view))
    w = [r.choice(COEFS) for _ in range(m)]
    sp["exprs"] = {
        "o0": ["+", ["dot", view, view], ["lincomb", w, view]],
        "o1": ["lincomb", w, view],
        "o2": ["-", ["dot", view, view], ["vsum", view]],
        "o3": ["+", ["dot", ["vec", "v"], ["vec", "v"]], ["var", "x"]],
    }
    sp["cons"] = {
        "cs": {"k": "s", "lhs": ["vsum", view], "sense": ">=", "rhs": ["num", r.choice([0.5, 1.0])]},
        "cl": {"k": "s", "lhs": ["lincomb", [r.choice(POS) for _ in range(m)], view], "sense": "<=", "rhs": ["num", r.choice([2.0, 4.0, 8.0])]},
        "ce": {"k": "s", "lhs": ["vel", "v", 0], "sense": "<=", "rhs": ["num", r.choice([0.5, 1.0, 3.0])]},
        "cx": {"k": "s", "lhs": ["+", ["vel", "v", n - 1], ["var", "x"]], "sense": ">=", "rhs": ["num", 0.5]},
        "cv": {"k": "v", "lhs": ["vec", "v"], "sense": "<=", "rhs": (ub if ub is not None else 4.0)},
    }
    sp["expr_order"] = sorted(sp["exprs"])
    sp["con_order"] = sorted(sp["cons"])
    meths = ["SLSQP", "trust-constr", "auto", "L-BFGS-B", "linprog", "auto"]
    ops = [["new_model", 0, sp], [r.choice(["minimize", "minimize", "maximize"]), 0, r.choice(["o0", "o0", "o1", "o2"])]]
    for c in r.sample(["cs", "cl"], r.choice([0, 0, 1, 2])):
        ops.append(["subject_to", 0, c])
    ops.append(r.choice([["read_variables", 0], ["solve", 0, cap_iterations(r, {"method": r.choice(meths)})]]))
    ops.append(["solve", 0, cap_iterations(r, {"method": r.choice(meths)})])
    for _ in range(r.randint(1, 3)):
        k = r.random()
        if k < 0.6:
            ops.append(["subject_to", 0, r.choice(["ce", "cx", "cv", "cs"])])
        elif k < 0.8:
            ops.append([r.choice(["minimize", "maximize"]), 0, r.choice(sorted(sp["exprs"]))])
        else:
            ops.append(["read_variables", 0])
        ops.append(["solve", 0, cap_iterations(r, {"method": r.choice(meths)})])
    return {"knobs": dict(DEFAULT_KNOBS), "ops": ops}


def gen_c13(r, int_frac=0.0, strict_frac=0.0, maxlen=None):
    if int_frac == 0.0 and r.random() < 0.08:
        return gen_single_source(r)
    if int_frac == 0.0 and r.random() < 0.1:
        return gen_redeclare(r)
    if int_frac == 0.0 and r.random() < 0.1:
        return gen_lp_rotation(r)
    if int_frac == 0.0 and r.random() < 0.08:
        return gen_lp_bounds(r)
    deep = r.choice([0, 0, 0, 4, 9])
    if r.random() < 0.05:
        deep = 405  # really deep linear objectives: iterative degree / variable / coefficient code
    kinds = ("lin", "quad", "nl", "lin") if r.random() < 0.5 else ("lin", "lin", "lin", "quad", "lin", "nl")
    sp, meta = gen_pool(r, kinds=kinds, int_frac=int_frac, nobj=6, ncon=8, deep=deep)
    knobs = gen_knobs(r, 0.6)
    ops = [["new_model", 0, sp]]
    onames = sorted(sp["exprs"])
    cnames = sorted(sp["cons"])
    elems = S.all_element_names(sp)
    lin_objs = [o for o in onames if meta["okinds"][o] == "lin"]
    lin_cons = [c for c in cnames if meta["ckinds"][c] in ("lin", "vec", "newvar")]
    n = r.randint(3, maxlen or 22)
    have_obj = {0: False}
    bias_lp = r.random() < 0.5  # many runs stay on LP-capable states for a while
    attrs = S.elem_attrs(S.new_shadow(sp))
    mids = [0]
    if r.random() < 0.2:
        # a second Problem over the same Variable / expression objects (bound edits are shared)
        ops.append(["alias_model", 1, 0])
        mids.append(1)
        have_obj[1] = False
    for step in range(n):
        k = r.random()
        mid = r.choice(mids)
        if not have_obj[mid] and k < 0.9:
            k = 0.0
        if k < 0.16:
            o = r.choice(lin_objs) if (bias_lp and r.random() < 0.7 and lin_objs) else r.choice(onames)
            ops.append([r.choice(["minimize", "minimize", "maximize"]), mid, o])
            have_obj[mid] = True
        elif k < 0.30:
            c = r.choice(lin_cons) if (bias_lp and r.random() < 0.7 and lin_cons) else r.choice(cnames)
            ops.append(["subject_to", mid, c])
        elif k < 0.33:
            cs = r.sample(cnames, r.choice([1, 2, 3]))
            ops.append(["subject_to_list", mid, cs])
        elif k < 0.355 and have_obj[mid]:
            # a rejected objective call: prob.maximize("...") raises; nothing about the model may change
            ops.append(["objective_bad", mid, r.choice(["minimize", "maximize"])])
        elif k < 0.345:
            # a call that fails half-way: a list of scalar constraints with an invalid element
            cs = [c for c in r.sample(cnames, r.choice([2, 3])) if sp["cons"][c]["k"] == "s"]
            if cs:
                ops.append(["subject_to_bad", mid, cs, r.randint(0, len(cs))])
        elif k < 0.46:
            e = r.choice(elems)
            lb, ub, dom = attrs[e]
            if dom == "binary" and r.random() < 0.7:
                continue
            relax = r.random() < 0.35  # widen the box instead of moving the bound towards the other one
            if r.random() < 0.5:
                base = ub if ub is not None else 5.0
                nb = base - r.choice([0.25, 0.5, 1.0, 1.5, 2.5])
                if relax and lb is not None:
                    nb = lb - r.choice([0.5, 1.0, 3.0, 6.0])
                if r.random() < 0.15:
                    nb = None
                ops.append(["set_lb", 0, e, nb])
                attrs[e][0] = nb
            else:
                base = lb if lb is not None else -5.0
                nb = base + r.choice([0.25, 0.5, 1.0, 1.5, 2.5])
                if relax and ub is not None:
                    nb = ub + r.choice([0.5, 1.0, 3.0, 6.0])
                if r.random() < 0.15:
                    nb = None
                ops.append(["set_ub", 0, e, nb])
                attrs[e][1] = nb
        elif k < 0.50 and int_frac > 0:
            e = r.choice(elems)
            if attrs[e][2] != "binary":
                nd = r.choice(["integer", "continuous"])
                ops.append(["set_domain", 0, e, nd])
                attrs[e][2] = nd
        elif k < 0.58:
            ops.append([r.choice(["read_variables", "read_n", "read_bounds", "repr", "summary", "read_variables"]), mid])
        else:
            a = {"method": r.choice(C13_METHODS)}
            forced_retry = False
            if r.random() < strict_frac:
                a["strict"] = True
            if strict_frac > 0 and r.random() < 0.08 and a["method"] in ("auto", "linprog", "highs", "highs-ds", "highs-ipm"):
                # forwarded to linprog; says nothing about optyx's own guard.  (Only 0 = "no column is
                # integral": a real MIP solve makes HiGHS start worker threads inside the forked run
                # process, whose timing the simulator does not control.)
                a["kw"] = {"integrality": 0}
            if strict_frac > 0 and r.random() < 0.35:
                a["same_site"] = True  # issued from one and the same line of the user's program (a loop / helper)
            if r.random() < 0.1:
                a["use_hessian"] = False
            if r.random() < 0.1:
                a["maxiter"] = r.choice([1, 2, 5, 50])
            if r.random() < 0.08:
                a["tol"] = r.choice([1e-4, 1e-8])
            if r.random() < 0.15:
                a["x0_prev"] = True
            if r.random() < 0.25:
                a["site"] = r.choice(SITE_KINDS)  # the caller's namespace: python -c / REPL, a script, a notebook cell
            cap_iterations(r, a)
            forced_retry = r.random() < 0.07 and a["method"] in ("SLSQP", "auto")
            if forced_retry:
                # the peer makes SLSQP claim success at a point that violates a constraint: optyx
                # retries with trust-constr; whatever it remembers about that must not outlive an edit
                a["method"] = "SLSQP"
                a["peers"] = [{"mode": "scripted", "entry": 0, "cls": "slsqp-0", "success": True, "status": 0,
                               "message": "Optimization terminated successfully", "x": "far", "xkind": "far"}]
            if r.random() < 0.05:
                # a transient failure while the solve builds its caches (k-th compile call raises)
                a["fault"] = {"site": "compile", "k": r.choice([1, 2, 3, 4, 5, 7]), "exc": r.choice(["MemoryError", "RecursionError", "ValueError", "KeyboardInterrupt"])}
            ops.append(["solve", mid, a])
            if forced_retry and r.random() < 0.7:
                e = r.choice(elems)
                if attrs[e][2] != "binary":
                    nb = (attrs[e][1] if attrs[e][1] is not None else 5.0) + r.choice([0.5, 1.0])
                    ops.append(["set_ub", 0, e, nb])
                    attrs[e][1] = nb
                ops.append(["solve", mid, cap_iterations(r, {"method": "SLSQP"})])
    for mid in mids:
        if have_obj[mid]:
            ops.append(["solve", mid, cap_iterations(r, {"method": r.choice(C13_METHODS)})])
    return {"knobs": knobs, "ops": ops}


# --------------------------------------------------------------------------
# C12: parameters
# --------------------------------------------------------------------------

C12_METHODS = ["auto", "SLSQP", "trust-constr", "L-BFGS-B", "SLSQP", "trust-constr", "TNC", "Newton-CG", "BFGS"]


def gen_c12_pool(r, deep=0):
    layout = r.choice(["A", "B", "B", "E", "C", "D"])
    sp = {"name": "pm", "vars": gen_vars(r, layout), "params": [], "exprs": {}, "cons": {}}
    if r.random() < 0.5:
        sp["share_views"] = True
    np_ = r.randint(1, 3)
    pl = []
    for i in range(np_):
        sp["params"].append({"kind": "scalar", "name": f"p{i}", "value": r.choice(PGRID)})
        pl.append(["param", f"p{i}"])
    if r.random() < 0.6:
        n = r.choice([2, 3])
        grid = IGRID if r.random() < 0.25 else PGRID
        sp["params"].append({"kind": "vector", "name": "q", "n": n, "values": [r.choice(grid) for _ in range(n)]})
        pl.extend(["pel", "q", j] for j in range(n))
    core = [n for n in S.all_element_names(sp) if n != "w"]
    L = lambda n: ref_of(sp, n)  # noqa: E731
    pick = lambda k: r.sample(core, min(k, len(core)))  # noqa: E731

    def sq_sum(names, shift_params=True):
        parts = []
        for n in names:
            t = r.choice(pl) if (shift_params and r.random() < 0.6) else ["num", r.choice(TARGETS)]
            w = r.choice(POS)
            s = ["**", ["-", L(n), t], ["num", 2]]
            parts.append(s if w == 1.0 else ["*", ["num", w], s])
        for _ in range(deep):
            parts.append(["*", ["num", 0.0], r.choice(pl)])
        return parts[0] if len(parts) == 1 else ["chain", "+", parts]

    ex = sp["exprs"]
    a = pick(3)
    ex["o0"] = sq_sum(a)  # target shift; strictly convex in the mentioned variables
    b = pick(3)
    ex["o1"] = ["+", ["*", r.choice(pl), L(b[0])], sq_sum(b, False)]  # objective coefficient
    c = pick(2)
    ex["o2"] = ["+", ["*", ["+", ["*", pl[0], pl[0]], ["num", 0.5]], ["**", L(c[0]), ["num", 2]]], sq_sum(c[1:] or c, True)]  # Hessian entry
    d = pick(2)
    ex["o3"] = ["+", ["fn", "exp", ["*", ["*", r.choice(pl), ["num", 0.25]], L(d[0])]], sq_sum(d, False)]  # inside a function
    e = pick(3)
    ex["o4"] = ["chain", "+", [["*", r.choice(pl), L(n)] for n in e] + [["num", 1.0]]]  # linear in x with parameter coefficients
    f = pick(2)
    ex["o5"] = ["+", ["*", ["*", r.choice(pl), L(f[0])], L(f[-1])], sq_sum(f, True)]  # cross term coefficient
    iv = pick(2)
    ex["oi"] = ["+", ["*", L(iv[0]), ["**", r.choice(pl), ["num", -1]]], sq_sum(iv, False)]  # x * p**-1 (a rate, a price per unit)
    pw = pick(2)
    # a Parameter in EXPONENT position over a base that is positive everywhere (an elasticity)
    ex["opw"] = ["+", ["**", ["+", ["*", L(pw[0]), L(pw[0])], ["num", 1.5]], r.choice(pl)], sq_sum(pw, False)]
    f2 = pick(3)
    ex["oa"] = ["chain", "+", [["*", ["*", r.choice(pl), L(f2[0])], L(f2[1 % len(f2)])], ["*", ["*", L(f2[-1]), r.choice(pl)], L(f2[0])],
                               ["**", ["-", L(f2[0]), ["num", 1.0]], ["num", 2]]]]  # two parameter-weighted bilinear terms
    # a number on the LEFT of a Parameter (a rate times a price): Python float, or np.float64 as
    # indexing an array gives it -- then NumPy gets the first say about the product
    lit = lambda c: [r.choice(["num", "npnum"]), c]  # noqa: E731
    h2 = pick(2)
    ex["on"] = ["+", ["*", ["*", lit(r.choice(POS)), r.choice(pl)], L(h2[0])], sq_sum(h2, False)]
    ex["g6"] = ["-", ["*", lit(r.choice(POS)), r.choice(pl)], L(h2[-1])]
    sp["hess_pref"] = ["o5", "oa", "o2"]
    # constraint bodies (also compiled directly through handles)
    g = pick(2)
    ex["g0"] = ["-", render_linear(r, sp, [(r.choice(POS), n) for n in g]), r.choice(pl)]
    h = pick(2)
    ex["g1"] = ["-", ["+", ["*", r.choice(pl), L(h[0])], L(h[-1])], ["num", 1.0]]
    ex["g2"] = ["-", L(r.choice(core)), r.choice(pl)]
    cons = sp["cons"]
    cons["c0"] = {"k": "s", "lhs": render_linear(r, sp, [(r.choice(POS), n) for n in g]), "sense": "<=", "rhs": r.choice(pl)}
    cons["c1"] = {"k": "s", "lhs": ["+", ["*", r.choice(pl), L(h[0])], L(h[-1])], "sense": ">=", "rhs": ["num", 1.0]}
    cons["c2"] = gen_lin_con(r, sp, core)
    cons["c3"] = {"k": "s", "lhs": L(r.choice(core)), "sense": r.choice([">=", "<="]), "rhs": r.choice(pl)}
    cons["c4"] = {"k": "s", "lhs": ["+", ["**", L(core[0]), ["num", 2]], ["*", r.choice(pl), L(core[-1])]], "sense": "<=", "rhs": ["num", r.choice([4.0, 9.0, 25.0])]}
    cons["c8"] = {"k": "s", "lhs": L(core[0]), "sense": "<=", "rhs": ["+", ["*", lit(2.0), r.choice(pl)], ["num", 4.0]]}
    # coefficients times an explicit vector of parameter-scaled elements: linear in x, parametric
    ve = pick(3)
    ex["ov"] = ["chain", "+", [["lincomb", [r.choice(POS) for _ in ve], ["vexpr", [["*", r.choice(pl), L(n)] for n in ve]]], ["num", r.choice([0.0, 1.5])],
                               ["num", 0.0], ["num", 0.0], ["num", 1.0]] + [["num", 0.0]] * deep]
    cons["cv"] = {"k": "s", "lhs": ["lincomb", [1.0 for _ in ve], ["vexpr", [["*", r.choice(pl), L(n)] for n in ve]]], "sense": "<=", "rhs": ["num", r.choice([4.0, 9.0])]}
    # a running balance written term by term (supply - demand_0 - demand_1 - ... >= k): affine with
    # constant partial derivatives, the parameters are purely additive; `deep` extra terms
    bal = pick(2)
    terms = [L(bal[0]), (["*", ["num", r.choice(POS)], L(bal[-1])] if r.random() < 0.4 else L(bal[-1]))] if len(bal) > 1 else [L(bal[0])]
    terms += [["neg", p] for p in r.sample(pl, min(len(pl), r.choice([1, 2])))]
    ex["gd"] = ["chain", "+", terms + [["num", 0.0]] * deep]
    cons["cd"] = {"k": "s", "lhs": ["chain", "+", terms + [["num", 0.0]] * deep], "sense": ">=", "rhs": ["num", r.choice([-2.0, 0.0, 0.5])]}
    if r.random() < 0.3:
        # one array-valued Parameter (scenario data evaluated in one vectorised call); only in
        # expressions that are evaluated / compiled, never in an objective or constraint
        na = r.choice([2, 3])
        sp["params"].append({"kind": "array", "name": "pa", "n": na, "values": [r.choice(PGRID) for _ in range(na)]})
        ex["ga0"] = ["*", ["param", "pa"], L(core[0])]
        ex["ga1"] = ["+", ["*", L(core[-1]), ["param", "pa"]], ["**", L(core[0]), ["num", 2]]]
    # constraints without any decision variable: their truth changes with Parameter.set alone
    pa, pb = r.choice(pl), r.choice(pl)
    cons["cp0"] = {"k": "s", "lhs": pa, "sense": r.choice([">=", "<="]), "rhs": pb if r.random() < 0.6 else ["num", r.choice(PGRID)]}
    cons["cp1"] = {"k": "s", "lhs": ["+", r.choice(pl), ["num", 0.0]], "sense": "==", "rhs": ["num", r.choice(PGRID)]}
    # a Parameter scaling a whole vector reduction (vectorised jacobian_row / gradient rules)
    vhs = vec_handles(sp["vars"])
    if vhs:
        vec, vnames = r.choice(vhs)
        vec2, vnames2 = r.choice(vhs)
        p1, p2, p3 = r.choice(pl), r.choice(pl), r.choice(pl)
        ex["o6"] = ["*", p1, ["vsum", vec]] if r.random() < 0.5 else ["+", ["*", ["vsum", vec], p1], ["num", 2.0]]
        ex["o7"] = ["*", p2, ["dot", vec2, vec2]] if r.random() < 0.5 else ["-", ["*", ["dot", vec2, vec2], p2], ["num", 1.0]]
        ex["o8"] = ["*", p3, ["lincomb", [r.choice(COEFS) for _ in vnames], vec]]
        Q = [[0.0] * len(vnames2) for _ in vnames2]
        for i in range(len(vnames2)):
            Q[i][i] = r.choice([1.0, 2.0])
        ex["o9"] = ["*", ["quad", vec2, Q], r.choice(pl)]
        # prices . q : a vector of Parameters against a plain vector (both operand orders)
        pv_ = ["vexpr", [r.choice(pl) for _ in vnames]]
        ex["op"] = ["+", (["dot", pv_, vec] if r.random() < 0.5 else ["dot", vec, pv_]), ["dot", vec, vec]]
        ex["g5"] = ["dot", pv_, vec] if r.random() < 0.5 else ["dot", vec, pv_]
        cons["c7"] = {"k": "s", "lhs": ["dot", ["vexpr", [r.choice(pl) for _ in vnames2]], vec2], "sense": "<=", "rhs": ["num", r.choice([4.0, 9.0])]}
        ex["g3"] = ["*", r.choice(pl), ["vsum", vec]]
        ex["g4"] = ["*", ["dot", vec2, vec2], r.choice(pl)]
        cons["c5"] = {"k": "s", "lhs": ["*", r.choice(pl), ["vsum", vec]], "sense": "<=", "rhs": ["num", r.choice([2.0, 6.0])]}
        cons["c6"] = {"k": "s", "lhs": ["*", ["lincomb", [r.choice(POS) for _ in vnames2], vec2], r.choice(pl)], "sense": ">=", "rhs": ["num", r.choice([-3.0, 0.5])]}
    sp["expr_order"] = sorted(ex)
    sp["con_order"] = sorted(cons)
    meta = {"convex": ["o0"], "lincons": ["c0", "c2", "c3", "c8"], "linear": ["o4", "ov"] + (["o6", "o8"] if vhs else []), "linpcons": ["c1", "cv", "cd"] + (["c5", "c6", "c7"] if vhs else [])}
    return sp, meta


def _gen_order(r, sp, need):
    names = S.all_element_names(sp)
    order = list(need)
    extra = [n for n in names if n not in need]
    r.shuffle(extra)
    order += extra[: r.choice([0, 0, 1, 2, 3])]
    if r.random() < 0.5:
        r.shuffle(order)
    else:
        order.sort(key=S.natural_key)
    return order


def gen_handle(r, sp, hid, enames):
    kind = r.choice(["expr", "grad", "jac", "hess", "cexpr", "dictfn", "symgrad", "jac", "hess", "grad", "hess", "jac"])
    if sp.get("params") and r.random() < 0.6:
        # prefer expressions that actually contain a parameter
        pe = [e for e in enames if S.params_in(sp["exprs"][e])]
        enames = pe or enames
    if kind == "jac":
        es = r.sample(enames, min(len(enames), r.choice([1, 1, 2, 3])))
        need = set()
        for e in es:
            need |= S.mentioned(sp, sp["exprs"][e])
        return ["compile", 0, hid, "jac", {"es": es, "order": _gen_order(r, sp, sorted(need, key=S.natural_key))}]
    e = r.choice(enames)
    bare = [b for b in ("b0", "b1", "b2", "b3") if b in sp["exprs"]]
    if bare and r.random() < 0.15:
        e = r.choice(bare)
    if kind == "hess" and sp.get("hess_pref") and r.random() < 0.5:
        e = r.choice([h for h in sp["hess_pref"] if h in sp["exprs"]] or [e])
    need = sorted(S.mentioned(sp, sp["exprs"][e]), key=S.natural_key)
    a = {"e": e, "order": _gen_order(r, sp, need)}
    if len(need) >= 2 and r.random() < 0.1:
        # a request that cannot be compiled: a needed variable is missing from the order
        a["order"] = [n for n in a["order"] if n != need[-1]]
        a["bad_order"] = True
    if kind == "symgrad":
        a["wrt"] = r.choice(need) if need else S.all_element_names(sp)[0]
    return ["compile", 0, hid, kind, a]


def gen_param_ops_reset(r, sp):
    """vector set A, element set, vector set A again (the same array)."""
    vs = [d for d in sp["params"] if d["kind"] == "vector"]
    if not vs:
        return [gen_param_op(r, sp)]
    d = r.choice(vs)
    A = [r.choice(PGRID) for _ in range(d["n"])] if r.random() < 0.6 else list(d["values"])
    i = r.randrange(d["n"])
    z = r.choice([v for v in PGRID if v != A[i]])
    ops = [] if A == list(d["values"]) and r.random() < 0.5 else [["vparam_set", 0, d["name"], A]]
    return ops + [["pel_set", 0, d["name"], i, z], ["vparam_set", 0, d["name"], A]]


IGRID = [-3, -1, 1, 2, 2, 3, 5]  # the same numbers a user would type without a decimal point


# numbers in the dtype they might arrive in (read from a float32 array, an int8 column, a boolean mask):
# each value is exactly representable in its dtype, so the meaning of the write is unambiguous
TYPED_GRID = {
    "float32": [0.5, -1.5, 2.0, 3.5, 0.800000011920929, 0.10000000149011612, 1234.5677490234375],
    "float16": [0.5, -1.5, 2.0, 3.5, 0.0999755859375, 60000.0, 0.300048828125],
    "int32": [-3, 1, 2, 5, 40000],
    "int8": [-3, 1, 2, 5, 100],
    "bool": [True, False],
}


def gen_param_op(r, sp):
    d = r.choice(sp["params"])
    ints = r.random() < 0.2
    grid = IGRID if ints else PGRID
    tail = []
    if r.random() < 0.15:
        dt = r.choice(sorted(TYPED_GRID))
        grid = TYPED_GRID[dt]
        tail = [dt]
    if d["kind"] == "array":
        vals = [r.choice(PGRID) for _ in range(d["n"])]
        return ["param_set", 0, d["name"], vals] + (["alias"] if r.random() < 0.5 else [])
    if d["kind"] == "scalar":
        return ["param_set", 0, d["name"], r.choice(grid)] + tail
    if r.random() < 0.5:
        return ["vparam_set", 0, d["name"], [r.choice(grid) for _ in range(d["n"])]] + tail
    return ["pel_set", 0, d["name"], r.randrange(d["n"]), r.choice(grid)] + tail


def gen_c12(r):
    knobs = gen_knobs(r, 0.45)
    deep = r.choice([0, 0, 3, 8]) if knobs["thr_compiler"] != 400 or knobs["thr_autodiff"] != 400 else 0
    if r.random() < 0.05:
        deep = 405  # really deep: iterative code paths under the shipped thresholds too
    sp, meta = gen_c12_pool(r, deep)
    ops = [["new_model", 0, sp]]
    enames = sorted(sp["exprs"])
    onames = [e for e in enames if e.startswith("o")]
    cnames = sorted(sp["cons"])
    hids = []
    # long-lived artefacts are created early and used late
    for _ in range(r.randint(1, 4)):
        hid = f"h{len(hids)}"
        ops.append(gen_handle(r, sp, hid, enames))
        hids.append(hid)
    twin = r.random() < 0.35
    if twin:
        # an alike model (same names) whose parameters hold other values: compiled / solved first
        tw = mutate_spec(random.Random(r.random()), sp) if r.random() < 0.5 else sp
        ops.append(["new_model", 1, tw])
        ops.append(_retarget(gen_handle(r, sp, "t0", enames), 1))
        ops.append(["call", 1, "t0", gen_point(r, sp)])
        ops.append(["minimize", 1, r.choice(onames)])
        ops.append(["solve", 1, cap_iterations(r, {"method": r.choice(C12_METHODS)})])
        ops.append(_retarget(gen_param_op(r, sp), 1))
    obj = r.choice(onames)
    ops.append([r.choice(["minimize", "minimize", "maximize"]) if obj != "o0" else "minimize", 0, obj])
    cur_obj, cur_sense = obj, ops[-1][0]
    cur_cons = []
    for c in r.sample(cnames, r.choice([0, 1, 2])):
        ops.append(["subject_to", 0, c])
        cur_cons.append(c)
    if deep and "cd" not in cur_cons and r.random() < 0.6:
        ops.append(["subject_to", 0, "cd"])  # the deep running balance, whenever the pool is deep
        cur_cons.append("cd")
    n = r.randint(4, 20)
    for _ in range(n):
        k = r.random()
        if k < 0.05:
            ops.extend(gen_param_ops_reset(r, sp))
        elif k < 0.30:
            ops.append(gen_param_op(r, sp))
        elif k < 0.55:
            a = {"method": r.choice(C12_METHODS)}
            if cur_obj in meta["convex"] and cur_sense == "minimize" and all(c in meta["lincons"] for c in cur_cons) and a["method"] in ("SLSQP", "trust-constr"):
                a["r2"] = "convex"
            elif cur_obj in meta["linear"] and all(c in meta["lincons"] + meta["linpcons"] for c in cur_cons):
                if r.random() < 0.6:
                    a["method"] = r.choice(["auto", "auto", "linprog", "highs-ds"])
                a["r2"] = "lp"
            if r.random() < 0.1:
                a["use_hessian"] = False
            if r.random() < 0.25:
                a["x0_prev"] = True  # rolling-horizon pattern: warm start at the previous optimum
            cap_iterations(r, a)
            ops.append(["solve", 0, a])
        elif k < 0.75 and hids:
            h = r.choice(hids)
            ops.append(["call", 0, h, gen_point(r, sp)])
        elif k < 0.83:
            ops.append(["evaluate", 0, r.choice(enames), gen_point(r, sp)])
        elif k < 0.90:
            hid = f"h{len(hids)}"
            ops.append(gen_handle(r, sp, hid, enames))
            hids.append(hid)
        elif k < 0.92 and twin:
            ops.append(_retarget(gen_param_op(r, sp), 1))
            ops.append(["call", 1, "t0", gen_point(r, sp)] if r.random() < 0.5 else ["solve", 1, {"method": r.choice(C12_METHODS)}])
        elif k < 0.95:
            obj = r.choice(onames)
            ops.append([r.choice(["minimize", "maximize"]) if obj != "o0" else "minimize", 0, obj])
            cur_obj, cur_sense = obj, ops[-1][0]
        else:
            c = r.choice(cnames)
            ops.append(["subject_to", 0, c])
            cur_cons.append(c)
    # end with a set followed by observations of everything long-lived
    ops.append(gen_param_op(r, sp))
    for h in hids[:3]:
        ops.append(["call", 0, h, gen_point(r, sp)])
    ops.append(["solve", 0, cap_iterations(r, {"method": r.choice(C12_METHODS)})])
    return {"knobs": knobs, "ops": ops}


# --------------------------------------------------------------------------
# C14: independent models vs process-wide caches
# --------------------------------------------------------------------------

C14_METHODS = ["auto", "auto", "SLSQP", "trust-constr", "L-BFGS-B", "linprog", "highs-ds"]


def _add_bare_leaves(r, sp):
    """Bare name-comparing leaves as whole expressions (they become LRU keys by name)."""
    if sp["params"]:
        d = sp["params"][0]
        sp["exprs"]["b0"] = ["param", d["name"]] if d["kind"] == "scalar" else ["pel", d["name"], 0]
    names = S.all_element_names(sp)
    n = r.choice(names)
    sp["exprs"]["b1"] = ref_of(sp, n)
    sp["exprs"]["ob"] = ref_of(sp, n)  # a bare variable as an OBJECTIVE (minimize(t))
    # a plain product of two variables: its gradient entries are bare Variables
    a, b = (r.sample(names, 2) + [n])[:2]
    sp["exprs"]["b2"] = ["*", ref_of(sp, a), ref_of(sp, b)]
    mats = [d for d in sp["vars"] if d["kind"] == "matrix"]
    if mats:
        # evaluates, but has no compiler case: every compile of it must raise, and leave nothing behind
        sp["exprs"]["b3"] = ["+", ["*", ["num", 2.0], ref_of(sp, n)], ["msum", mats[0]["name"]]]
    sp["expr_order"] = sorted(sp["exprs"])


def gen_any_pool(r, layout=None):
    if r.random() < 0.5:
        sp, meta = gen_c12_pool(r)
        if layout:
            pass
    else:
        sp, meta = gen_pool(r, kinds=("lin", "quad", "nl"), layout=layout, nobj=4, ncon=5, params=r.choice([0, 1, 2]))
    _add_bare_leaves(r, sp)
    return sp


def mutate_spec(r, sp):
    """Name-preserving mutation of a spec: same variable / parameter names, other values, bounds, sizes."""
    import copy

    m = copy.deepcopy(sp)
    k = r.random()
    if m["params"] and r.random() < 0.85:
        for d in m["params"]:
            if d["kind"] == "scalar":
                d["value"] = r.choice([v for v in PGRID if v != d["value"]])
            else:
                d["values"] = [r.choice(PGRID) for _ in range(d["n"])]
        if r.random() < 0.7:
            return m
    if k < 0.2:
        # the same names, but some variables FIXED by their bounds (lb == ub)
        for d in m["vars"]:
            if d.get("domain", "continuous") == "continuous" and r.random() < 0.6:
                d["lb"] = d["ub"] = r.choice([0.5, 1.0, 2.0, -1.0])
    elif k < 0.75:
        for d in m["vars"]:
            if d.get("domain", "continuous") == "binary":
                continue
            lb, ub = gen_bounds(r)
            d["lb"], d["ub"] = lb, ub
    else:
        for d in m["vars"]:
            if d["kind"] == "scalar" and r.random() < 0.5:
                d["domain"] = "integer"
    return m


def nudge_constants(r, sp):
    """Same names, same tree shapes, and every numeric literal moved in its 7th-12th significant
    digit (exponents of ** excepted): whatever identifies a model by a rounded or formatted rendering
    of its constants takes the two for one."""
    import copy

    m = copy.deepcopy(sp)
    d = r.choice([3e-7, 3e-7, 2.5e-7, 4e-8, 1e-11]) * r.choice([1, -1])

    def walk(e, exponent=False):
        if not isinstance(e, list):
            return
        if len(e) == 2 and e[0] in ("num", "npnum") and isinstance(e[1], (int, float)) and not isinstance(e[1], bool):
            if not exponent and e[1] != 0:
                e[1] = float(e[1]) * (1.0 + d)
            return
        if len(e) == 3 and e[0] == "**":
            walk(e[1])
            walk(e[2], True)
            return
        for c in e:
            walk(c)

    for k in m["exprs"]:
        walk(m["exprs"][k])
    for c in m["cons"].values():
        for f in ("lhs", "rhs"):
            if f in c:
                walk(c[f])
    return m


def _setup_ops(r, sp, mid, ncons=None):
    onames = [e for e in sorted(sp["exprs"]) if e.startswith("o")]
    cnames = sorted(sp["cons"])
    ops = [[r.choice(["minimize", "minimize", "maximize"]), mid, r.choice(onames)]]
    for c in r.sample(cnames, min(len(cnames), r.choice([0, 1, 2]) if ncons is None else ncons)):
        ops.append(["subject_to", mid, c])
    return ops


def _retarget(op, mid):
    op = list(op)
    op[1] = mid
    return op


def gen_observations(r, sp, mid, hids, nmax=4, methods=C14_METHODS):
    ops = []
    enames = sorted(sp["exprs"])
    for _ in range(r.randint(1, nmax)):
        k = r.random()
        if k < 0.35:
            hid = f"h{len(hids)}"
            ops.append(_retarget(gen_handle(r, sp, hid, enames), mid))
            hids.append(hid)
            ops.append(["call", mid, hid, gen_point(r, sp)])
        elif k < 0.55 and hids:
            ops.append(["call", mid, r.choice(hids), gen_point(r, sp)])
        elif k < 0.65:
            ops.append(["evaluate", mid, r.choice(enames), gen_point(r, sp)])
        else:
            a = {"method": r.choice(methods)}
            if r.random() < 0.2:
                a["maxiter"] = r.choice([1, 2, 3, 7])
            if r.random() < 0.1:
                a["tol"] = r.choice([1e-3, 1e-9])
            if r.random() < 0.1:
                a["use_hessian"] = False
            ops.append(["solve", mid, cap_iterations(r, a)])
    return ops


def opflip(r, sp):
    """Same leaves, same tree shape (hence the same allocation pattern), other operator:
    the degree / linearity of an objective changes while node addresses can be reused."""
    import copy

    m = copy.deepcopy(sp)
    for name in sorted(m["exprs"]):
        e = m["exprs"][name]
        if not name.startswith("o"):
            continue
        if e[0] == "chain" and e[1] == "+" and len(e[2]) >= 2:
            e[1] = "*" if r.random() < 0.5 else "-"
        elif e[0] == "+":
            e[0] = "*"
        elif e[0] == "*":
            e[0] = "+"
        elif e[0] == "-":
            e[0] = "*"
    return m


def _tiny_spec(r, kind):
    """Two variables, one objective, two constraints; `kind` picks the objective's degree."""
    a, b, c = r.choice(COEFS), r.choice(COEFS), r.choice(TARGETS)
    x, y = ["var", "x"], ["var", "y"]
    if kind == "lin":
        o = ["+", ["*", ["num", a], x], ["*", ["num", b], y]]
    elif kind == "quad":
        o = ["+", ["**", ["-", x, ["num", c]], ["num", 2]], ["**", ["-", y, ["num", a]], ["num", 2]]]
    else:
        o = ["*", ["-", x, ["num", c]], ["-", y, ["num", a]]]
    sp = {
        "name": "t",
        "vars": [{"kind": "scalar", "name": "x", "lb": -4.0, "ub": 4.0, "domain": "continuous"},
                 {"kind": "scalar", "name": "y", "lb": -4.0, "ub": 4.0, "domain": "continuous"}],
        "params": [],
        "exprs": {"o0": o},
        "cons": {"c0": {"k": "s", "lhs": ["+", x, y], "sense": "<=", "rhs": ["num", r.choice([1.0, 2.0, 3.0])]},
                 "c1": {"k": "s", "lhs": ["*", x, y] if kind == "prod" and r.random() < 0.5 else ["-", x, y], "sense": ">=", "rhs": ["num", -2.0]}},
        "expr_order": ["o0"],
        "con_order": ["c0", "c1"],
    }
    return sp


def gen_c14_churn(r, tier="quick"):
    """Many short-lived models of one kind, dropped and collected, then models of another kind:
    node addresses get recycled, so anything keyed by id() / address goes stale."""
    from .world import DEFAULT_KNOBS

    knobs = dict(DEFAULT_KNOBS)
    small = tier == "quick" or r.random() < 0.6
    if small:
        knobs.update(lru_compile=r.choice([4, 16]), lru_gradient=r.choice([4, 16]), lru_degree=r.choice([4, 16]))
    first, second = r.choice([("lin", "quad"), ("lin", "prod"), ("quad", "lin"), ("prod", "lin")])
    n = r.randint(12, 30)
    ops = []
    for j in range(n):
        mid = 100 + j
        ops.append(["new_model", mid, _tiny_spec(r, first)])
        ops.append([r.choice(["minimize", "maximize"]), mid, "o0"])
        ops.append(["subject_to", mid, "c0"])
        if r.random() < 0.5:
            ops.append(["subject_to", mid, "c1"])
        ops.append(["solve", mid, {"method": "auto"}] if r.random() < 0.7 else ["read_n", mid])
        if not small and j == n // 2:
            ops.append(["flood", 4200, "fc"])
        ops.append(["drop_model", mid])
    if not small:
        ops.append(["flood", 4200, "fd"])
    for j in range(r.randint(3, 8)):
        mid = 200 + j
        ops.append(["new_model", mid, _tiny_spec(r, second)])
        ops.append(["minimize", mid, "o0"])
        ops.append(["subject_to", mid, "c0"])
        ops.append(["solve", mid, {"method": "auto"}])
        if r.random() < 0.5:
            ops.append(["drop_model", mid])
    return {"knobs": knobs, "ops": ops}


def _reorder_script(r, ops):
    """The same script with every handle's variable order permuted *inside* (first and last
    names and the length kept): the adversary compiles the same leaves at other columns."""
    import copy

    out = []
    for op in ops:
        op = copy.deepcopy(op)
        if op[0] == "compile":
            order = op[4]["order"]
            if len(order) >= 4:
                mid = order[1:-1]
                r.shuffle(mid)
                op[4]["order"] = [order[0]] + mid + [order[-1]]
            elif len(order) == 3 and r.random() < 0.5:
                op[4]["order"] = [order[1], order[0], order[2]]
        out.append(op)
    return out


def gen_c14_shared(r, tier="quick"):
    """Two (or three) Problems built on the SAME expression objects: same objective object with
    opposite senses, Hessian / non-Hessian methods interleaved.  What one Problem computed for an
    expression must not leak into the other through anything keyed by the expression alone."""
    knobs = gen_knobs(r, 0.6)
    lp_flavour = r.random() < 0.4
    if lp_flavour:
        # linear objectives and constraints: the Problems share constraint objects on the LP route
        sp, _ = gen_pool(r, kinds=("lin", "lin", "lin"), nobj=4, ncon=6)
        _add_bare_leaves(r, sp)
    else:
        sp = gen_any_pool(r)
    onames = [e for e in sorted(sp["exprs"]) if e.startswith("o")]
    ops = [["new_model", 0, sp], ["alias_model", 1, 0]]
    mids = [0, 1]
    if r.random() < 0.3:
        ops.append(["alias_model", 2, 0])
        mids.append(2)
    o = r.choice(onames)
    senses = ["minimize", "maximize"]
    r.shuffle(senses)
    for i, mid in enumerate(mids):
        ops.append([senses[i % 2], mid, o if r.random() < 0.8 else r.choice(onames)])
        shared_cons = r.sample(sorted(sp["cons"]), r.choice([1, 2])) if lp_flavour and i == 0 else (shared_cons if lp_flavour else [])
        for c in (shared_cons if lp_flavour else r.sample(sorted(sp["cons"]), r.choice([0, 0, 1, 2]))):
            ops.append(["subject_to", mid, c])
    meths = ["trust-constr", "trust-constr", "Newton-CG", "SLSQP", "auto", "L-BFGS-B"]
    if lp_flavour:
        meths = ["auto", "auto", "linprog", "highs-ds", "highs-ipm", "SLSQP"]
    for _ in range(r.randint(3, 7)):
        mid = r.choice(mids)
        if r.random() < 0.15 and sp["params"]:
            ops.append(gen_param_op(r, sp))
        ops.append(["solve", mid, cap_iterations(r, {"method": r.choice(meths)})])
    return {"knobs": knobs, "ops": ops}


def gen_c14_buffer(r, tier="quick"):
    """Unrelated models built one after the other on ONE preallocated matrix buffer that the caller
    overwrites in place; each model is dropped before the next one reuses the buffer."""
    from .world import DEFAULT_KNOBS

    ops = []
    n = r.choice([2, 3])
    for j in range(r.randint(3, 7)):
        mid = 300 + j
        Q = [[0.0] * n for _ in range(n)]
        for i in range(n):
            Q[i][i] = r.choice([1.0, 2.0, 3.0, 5.0])
        if r.random() < 0.7:
            a, b = r.sample(range(n), 2)
            Q[a][b] = r.choice([0.5, -0.5, 1.5])  # not symmetric: the gradient needs Q + Q.T
        vname = r.choice(["v", "v", "u"])
        sp = {
            "name": "buf", "shared_q": "cov",
            "vars": [{"kind": "vector", "name": vname, "n": n, "lb": -3.0, "ub": 3.0, "domain": "continuous"},
                     {"kind": "scalar", "name": "x", "lb": -2.0, "ub": 2.0, "domain": "continuous"}],
            "params": [],
            "exprs": {
                "oq": ["+", ["quad", ["vec", vname], Q], ["**", ["-", ["var", "x"], ["num", r.choice(TARGETS)]], ["num", 2]]],
                "ob": ["quad", ["vec", vname], Q],
                "on": ["-", ["*", ["num", 0.5], ["quad", ["vec", vname], Q]], ["lincomb", [r.choice(COEFS) for _ in range(n)], ["vec", vname]]],
            },
            "cons": {"c0": {"k": "s", "lhs": ["vsum", ["vec", vname]], "sense": ">=", "rhs": ["num", r.choice([0.5, 1.0])]}},
        }
        sp["expr_order"] = sorted(sp["exprs"])
        sp["con_order"] = ["c0"]
        ops.append(["new_model", mid, sp])
        e = r.choice(["oq", "on", "ob", "oq"])
        order = [f"{vname}[{i}]" for i in range(n)] + ["x"]
        hid = "h0"
        ops.append(["compile", mid, hid, r.choice(["grad", "jac", "symgrad", "hess", "cexpr"]),
                    {"e": e, "es": [e], "order": order, "wrt": order[0]}])
        ops.append(["call", mid, hid, gen_point(r, sp)])
        if r.random() < 0.6:
            ops.append(["minimize", mid, e])
            if r.random() < 0.5:
                ops.append(["subject_to", mid, "c0"])
            ops.append(["solve", mid, cap_iterations(r, {"method": r.choice(["SLSQP", "trust-constr", "auto", "L-BFGS-B"])})])
        ops.append(["drop_model", mid])
    return {"knobs": dict(DEFAULT_KNOBS), "ops": ops}


def gen_c14_inplace(r, tier="quick"):
    """The rolling-horizon loop: coefficient arrays of the user's (cost vector, covariance matrix)
    are handed to optyx once, the expressions built from them are reused in Problem after Problem,
    and between two Problems the user overwrites the arrays in place.  Whatever the expressions
    mean after that, every Problem built on them must see ONE consistent set of numbers -- here:
    the numbers they were built with -- however many Problems used them before."""
    from .world import DEFAULT_KNOBS

    n = r.choice([2, 3])
    vname = "w"
    Q = [[0.0] * n for _ in range(n)]
    for i in range(n):
        Q[i][i] = r.choice([1.0, 2.0, 3.0])
    if r.random() < 0.6:
        Q[0][1] = Q[1][0] = r.choice([0.5, -0.5])
    c = [r.choice(COEFS) for _ in range(n)]
    A = [[r.choice([0.0, 1.0, 2.0, -1.0]) for _ in range(n)] for _ in range(2)]
    sp = {"name": "roll", "share_views": True,
          "buffers": {"c": c, "Q": Q, "A": A},
          "vars": [{"kind": "vector", "name": vname, "n": n, "lb": -5.0, "ub": 5.0, "domain": "continuous"}],
          "params": [],
          "exprs": {"o0": ["-", ["dot", ["vec", vname], ["vec", vname]], ["lincomb", "@c", ["vec", vname]]],
                    "o1": ["-", ["quad", ["vec", vname], "@Q"], ["lincomb", "@c", ["vec", vname]]],
                    "o2": ["+", ["qform", ["vec", vname], "@Q"], ["vsum", ["matvec", "@A", ["vec", vname]]]],
                    "o3": ["lincomb", "@c", ["vec", vname]]},
          "cons": {"c0": {"k": "s", "lhs": ["vsum", ["vec", vname]], "sense": "==", "rhs": ["num", 1.0]},
                   "c1": {"k": "v", "lhs": ["matvec", "@A", ["vec", vname]], "sense": "<=", "rhs": [4.0, 6.0]}},
          "expr_order": ["o0", "o1", "o2", "o3"], "con_order": ["c0", "c1"]}
    order = [f"{vname}[{i}]" for i in range(n)]
    ops = [["new_model", 0, sp]]
    mid = 0
    nxt = 1
    for rnd in range(r.randint(2, 4)):
        o = r.choice(["o0", "o0", "o1", "o2", "o3"])
        ops.append([r.choice(["minimize", "minimize", "maximize"]) if o == "o3" else "minimize", mid, o])
        for cn in r.sample(["c0", "c1"], r.choice([0, 1, 1, 2])):
            ops.append(["subject_to", mid, cn])
        if r.random() < 0.4:
            hid = f"h{rnd}"
            ops.append(["compile", mid, hid, r.choice(["grad", "jac", "hess", "expr"]), {"e": o, "es": [o], "order": order}])
            ops.append(["call", mid, hid, gen_point(r, sp)])
        ops.append(["solve", mid, cap_iterations(r, {"method": r.choice(["auto", "SLSQP", "trust-constr", "L-BFGS-B", "linprog" if o == "o3" else "auto"])})])
        # the next data window arrives: written into the same arrays
        for b in r.sample(["c", "Q", "A"], r.choice([1, 1, 2])):
            if b == "c":
                ops.append(["buffer_write", mid, "c", [r.choice(COEFS) for _ in range(n)]])
            elif b == "Q":
                Q2 = [[0.0] * n for _ in range(n)]
                for i in range(n):
                    Q2[i][i] = r.choice([1.0, 2.0, 4.0])
                ops.append(["buffer_write", mid, "Q", Q2])
            else:
                ops.append(["buffer_write", mid, "A", [[r.choice([0.0, 1.0, 2.0, -1.0]) for _ in range(n)] for _ in range(2)]])
        k = r.random()
        if k < 0.5:
            # a brand-new Problem over the same expression objects
            ops.append(["alias_model", nxt, 0])
            mid = nxt
            nxt += 1
        elif k < 0.75:
            ops.append(["evaluate", mid, o, gen_point(r, sp)])
    o = r.choice(["o0", "o1", "o2"])
    ops.append(["minimize", mid, o])
    ops.append(["solve", mid, cap_iterations(r, {"method": r.choice(["SLSQP", "trust-constr", "auto"])})])
    return {"knobs": dict(DEFAULT_KNOBS), "ops": ops}


def gen_c14_batch(r, tier="quick"):
    """"Build the batch, then solve the batch": 2-4 models with the same names (other bounds, values,
    domains) are ALL built and given their objective / constraints first; only then each is observed
    and solved.  Whatever is memoised at build time (variable discovery, linearity) must belong to
    the model it was computed for."""
    knobs = gen_knobs(r, 0.5)
    M = gen_any_pool(r)
    setup = _setup_ops(r, M, 0)
    if "ob" in M["exprs"] and r.random() < 0.5:
        setup[0] = [r.choice(["minimize", "maximize"]), 0, "ob"]  # a bare variable as the objective
    obs = gen_observations(r, M, 0, [], 3, methods=["auto", "auto", "linprog", "SLSQP", "trust-constr", "L-BFGS-B", "highs-ds"])
    if not any(o[0] == "solve" for o in obs):
        obs.append(["solve", 0, cap_iterations(r, {"method": r.choice(["auto", "SLSQP", "linprog"])})])
    k = r.randint(2, 4)
    specs = [M] + [mutate_spec(r, M) for _ in range(k - 1)]
    r.shuffle(specs)
    ops = []
    for j, sp in enumerate(specs):
        ops.append(["new_model", 20 + j, sp])
        ops.extend(_retarget(o, 20 + j) for o in setup)
        if r.random() < 0.3:
            ops.append(["read_variables", 20 + j])
    order = list(range(k))
    r.shuffle(order)
    for j in order:
        ops.extend(_retarget(o, 20 + j) for o in obs)
    return {"knobs": knobs, "ops": ops}


def gen_c14(r, tier="quick"):
    if r.random() < 0.05:
        return gen_c14_inplace(r, tier)
    if r.random() < 0.08:
        return gen_c14_batch(r, tier)
    k = r.random()
    if k < 0.15:
        return gen_c14_churn(r, tier)
    if k < 0.25:
        return gen_c14_shared(r, tier)
    if k < 0.32:
        return gen_c14_buffer(r, tier)
    knobs = gen_knobs(r, 0.4)
    M = gen_any_pool(r)
    ops = []
    early = r.random() < 0.6
    setup = _setup_ops(r, M, 0)
    obsM = gen_observations(r, M, 0, [], 4)  # M's own observation script (handles h0..)
    if r.random() < 0.5:
        be = r.choice([b for b in ("b1", "b2", "b2") if b in M["exprs"]])
        need = sorted(S.mentioned(M, M["exprs"][be]), key=S.natural_key)
        hid = "hb"
        obsM.append(["compile", 0, hid, r.choice(["grad", "jac", "hess", "expr"]), {"e": be, "es": [be], "order": _gen_order(r, M, need)}])
        obsM.append(["call", 0, hid, gen_point(r, M)])
    if early:
        ops.append(["new_model", 0, M])
        ops.extend(setup)
        ran_early = r.random() < 0.7
        if ran_early:
            ops.extend(obsM)
    # adversarial prefix
    nadv = r.randint(1, 6)
    live = []
    for j in range(nadv):
        mid = 10 + j
        k = r.random()
        twin_script = False
        if k < 0.1:
            A = nudge_constants(r, M)  # same names and structure, constants equal to six digits only
            twin_script = r.random() < 0.9
        elif k < 0.45:
            A = mutate_spec(r, M)  # same names and structure, other values / bounds / domains
            twin_script = r.random() < 0.75
        elif k < 0.65:
            A = opflip(r, M)  # same leaves and shape, other operators
            twin_script = r.random() < 0.75
        else:
            A = gen_any_pool(r)
        ops.append(["new_model", mid, A])
        if twin_script:
            # the adversary does exactly what M does: same cache keys, other meaning
            ops.extend(_retarget(o, mid) for o in setup)
            script = _reorder_script(r, obsM) if r.random() < 0.5 else obsM
            ops.extend(_retarget(o, mid) for o in script)
        else:
            ops.extend(_setup_ops(r, A, mid))
            ops.extend(gen_observations(r, A, mid, [], 3))
        if r.random() < 0.12:
            # one of the adversary's solves dies in a callback (after some iterations)
            ops.append(["solve", mid, {"method": r.choice(["trust-constr", "trust-constr", "SLSQP", "L-BFGS-B"]), "maxiter": 60,
                                      "fault": {"site": "cb", "k": r.choice([3, 6, 10, 15, 25]), "exc": r.choice(["ValueError", "KeyboardInterrupt", "MemoryError"])}}])
        live.append(mid)
        if r.random() < 0.25:
            big = tier == "thorough" and r.random() < 0.3
            ops.append(["flood", r.choice([1100, 4200]) if big else r.choice([5, 20, 70]), f"f{j}"])
        if r.random() < 0.55:
            ops.append(["drop_model", live.pop(r.randrange(len(live)))])
    if r.random() < 0.15:
        # the last thing before M is observed: a same-named model whose compile request FAILS half-way
        # (a needed variable is missing from the order; or the expression has no compiler case)
        N2 = mutate_spec(r, M)
        ops.append(["new_model", 90, N2])
        cands = [e for e in sorted(N2["exprs"]) if len(S.mentioned(N2, N2["exprs"][e])) >= 2]
        if cands:
            e = r.choice(cands)
            need = sorted(S.mentioned(N2, N2["exprs"][e]), key=S.natural_key)
            r.shuffle(need)
            ops.append(["compile", 90, "hx", r.choice(["expr", "grad", "cexpr"]), {"e": e, "es": [e], "order": need[:-1], "bad_order": True}])
            ops.append(["call", 90, "hx", gen_point(r, N2)])
    # observe M: the long-lived copy and a fresh copy built after the prefix
    if early:
        hids0 = [o[2] for o in obsM if o[0] == "compile"] if ran_early else []
        ops.extend(obsM if (r.random() < 0.6 or not ran_early) else gen_observations(r, M, 0, hids0, 4))
    if not early or r.random() < 0.6:
        ops.append(["new_model", 1, M])
        ops.extend(_retarget(o, 1) for o in setup)
        ops.extend(_retarget(o, 1) for o in obsM)
        if r.random() < 0.4:
            ops.extend(gen_observations(r, M, 1, [o[2] for o in obsM if o[0] == "compile"], 3))
    return {"knobs": knobs, "ops": ops}


# --------------------------------------------------------------------------
# C06 / C07: solver-seam response injection
# --------------------------------------------------------------------------

BOUNDS_METHODS = {"L-BFGS-B", "TNC", "SLSQP", "Powell", "trust-constr", "Nelder-Mead"}  # optyx passes bounds to these

_GENERIC = [
    ("gen-success", True, 0, "Optimization terminated successfully."),
    ("gen-maxiter", False, 1, "Maximum number of iterations has been exceeded."),
    ("gen-maxfev", False, 1, "Maximum number of function evaluations has been exceeded."),
    ("gen-prloss", False, 2, "Desired error not necessarily achieved due to precision loss."),
    ("gen-nan", False, 3, "NaN result encountered."),
]

MIN_CLASSES = {
    "SLSQP": [
        ("slsqp-0", True, 0, "Optimization terminated successfully"),
        ("slsqp-2", False, 2, "More equality constraints than independent variables"),
        ("slsqp-3", False, 3, "More than 3*n iterations in LSQ subproblem"),
        ("slsqp-4", False, 4, "Inequality constraints incompatible"),
        ("slsqp-5", False, 5, "Singular matrix E in LSQ subproblem"),
        ("slsqp-6", False, 6, "Singular matrix C in LSQ subproblem"),
        ("slsqp-7", False, 7, "Rank-deficient equality constraint subproblem HFTI"),
        ("slsqp-8", False, 8, "Positive directional derivative for linesearch"),
        ("slsqp-9", False, 9, "Iteration limit reached"),
    ],
    "trust-constr": [
        ("tc-1", True, 1, "`gtol` termination condition is satisfied."),
        ("tc-2", True, 2, "`xtol` termination condition is satisfied."),
        ("tc-0", False, 0, "The maximum number of function evaluations is exceeded."),
        ("tc-3", False, 3, "`callback` raised `StopIteration`."),
        ("tc-4", False, 4, "Constraint violation exceeds 'gtol'"),
    ],
    "L-BFGS-B": [
        ("lbfgsb-pg", True, 0, "CONVERGENCE: NORM OF PROJECTED GRADIENT <= PGTOL"),
        ("lbfgsb-rel", True, 0, "CONVERGENCE: RELATIVE REDUCTION OF F <= FACTR*EPSMCH"),
        ("lbfgsb-maxiter", False, 1, "STOP: TOTAL NO. OF ITERATIONS REACHED LIMIT"),
        ("lbfgsb-maxfun", False, 1, "STOP: TOTAL NO. OF F,G EVALUATIONS EXCEEDS LIMIT"),
        ("lbfgsb-abnormal", False, 2, "ABNORMAL: "),
    ],
    "TNC": [
        ("tnc-local", True, 0, "Local minimum reached (|pg| ~= 0)"),
        ("tnc-fconv", True, 1, "Converged (|f_n-f_(n-1)| ~= 0)"),
        ("tnc-xconv", True, 2, "Converged (|x_n-x_(n-1)| ~= 0)"),
        ("tnc-maxfun", False, 3, "Max. number of function evaluations reached"),
        ("tnc-lsfail", False, 4, "Linear search failed"),
        ("tnc-infeasible", False, -1, "Infeasible (lower bound > upper bound)"),
        ("tnc-noprogress", False, 6, "Unable to progress"),
    ],
    "COBYLA": [
        ("cobyla-ok", True, 1, "Optimization terminated successfully."),
        ("cobyla-maxfev", False, 2, "Maximum number of function evaluations has been exceeded."),
        ("cobyla-rounding", False, 3, "Rounding errors are becoming damaging in COBYLA subroutine."),
        ("cobyla-maxcv", False, 4, "Did not converge to a solution satisfying the constraints. See `maxcv` for magnitude of violation."),
    ],
    "Powell": _GENERIC + [("powell-oob", False, 4, "The result is outside of the provided bounds.")],
    "BFGS": _GENERIC,
    "CG": _GENERIC,
    "Newton-CG": _GENERIC + [("ncg-warn", False, 2, "Warning: CG iterations didn't converge. The Hessian is not positive definite.")],
    "Nelder-Mead": _GENERIC,
}

LP_CLASSES = [
    ("hi-0", True, 0, "Optimization terminated successfully. (HiGHS Status 7: Optimal)"),
    ("hi-1t", False, 1, "Time limit reached. (HiGHS Status 13: Time limit reached)"),
    ("hi-1i", False, 1, "Iteration limit reached. (HiGHS Status 14: Iteration limit reached)"),
    ("hi-2", False, 2, "The problem is infeasible. (HiGHS Status 8: Infeasible)"),
    ("hi-3", False, 3, "The problem is unbounded. (HiGHS Status 10: Unbounded)"),
    ("hi-4", False, 4, "The problem is unbounded or infeasible. (HiGHS Status 9: Unbounded or infeasible)"),
    ("hi-4n", False, 4, "HiGHS did not provide a status code. (HiGHS Status None: None)"),
]


def _state_after(ops):
    """Shadow state of model 0 implied by an op prefix (generator-side bookkeeping)."""
    sh = None
    for op in ops:
        if op[0] == "new_model" and op[1] == 0:
            sh = S.new_shadow(op[2])
        elif op[0] in ("minimize", "maximize") and op[1] == 0:
            sh["objective"], sh["sense"] = op[2], "min" if op[0] == "minimize" else "max"
        elif op[0] == "subject_to" and op[1] == 0:
            sh["cons"].append(op[2])
        elif op[0] == "subject_to_list" and op[1] == 0:
            sh["cons"].extend(op[2])
        elif op[0] in ("set_lb", "set_ub", "set_domain") and op[1] == 0:
            sh["ov"].setdefault(op[2], {})[op[0][4:]] = op[3]
        elif op[0] == "param_set" and op[1] == 0:
            sh["pv"][op[2]] = op[3]
        elif op[0] == "vparam_set" and op[1] == 0:
            sh["pv"][op[2]] = list(op[3])
        elif op[0] == "pel_set" and op[1] == 0:
            sh["pv"][op[2]][op[3]] = op[4]
    return sh


def classify_points(r, sh, n=120):
    """Seeded candidate points in problem-variable order: {kind: [x...]}."""
    sp = sh["spec"]
    names = sorted(S.problem_vars(sh), key=S.natural_key)
    attrs = S.elem_attrs(sh)
    out = {"feas": [], "cviol": [], "bviol": [], "any": []}
    if not names:
        return names, out
    for _ in range(n):
        pt = {}
        for nm in names:
            lb, ub, _ = attrs[nm]
            lo = lb if lb is not None else (ub - 8.0 if ub is not None else -4.0)
            hi = ub if ub is not None else lo + 8.0
            if hi < lo:
                lo, hi = hi, lo
            pt[nm] = lo + (hi - lo) * r.randrange(0, 17) / 16.0
        full = dict(pt)
        try:
            worst = 0.0
            for c in sh["cons"]:
                for v in S.con_violations(sp, sp["cons"][c], full, sh["pv"]):
                    worst = max(worst, v)
        except (KeyError, ValueError, ZeroDivisionError, OverflowError):
            continue
        x = [pt[nm] for nm in names]
        out["any"].append(x)
        if worst == 0.0:
            out["feas"].append(x)
        elif worst >= 1e-2:
            out["cviol"].append(x)
    bounded = [i for i, nm in enumerate(names) if attrs[nm][0] is not None or attrs[nm][1] is not None]
    base = out["feas"] or out["any"]
    for x in base[:10]:
        if not bounded:
            break
        i = r.choice(bounded)
        lb, ub, _ = attrs[names[i]]
        y = list(x)
        if ub is not None and (lb is None or r.random() < 0.5):
            y[i] = ub + r.choice([0.5, 1.0, 4.0])
        else:
            y[i] = lb - r.choice([0.5, 1.0, 4.0])
        out["bviol"].append(y)
    return names, out


def gen_peer(r, method_entered, sh, lp=False, entry=0, classes=None, xkinds=None):
    """One scripted answer for the solver entry `entry` (method actually entered is `method_entered`)."""
    names, pts = classify_points(r, sh)
    if lp:
        cls = r.choice(classes or LP_CLASSES)
        name, success, status, msg = cls
        if success:
            return {"mode": "scripted", "entry": entry, "cls": name, "success": True, "status": status, "message": msg, "x": "real", "xkind": "real"}
        kinds = ["none", "none", "any", "real"]
        xk = r.choice(xkinds or kinds)
        x = None if xk == "none" else ("real" if xk == "real" or not pts["any"] else r.choice(pts["any"]))
        if x == "real":
            xk = "real"
        return {"mode": "scripted", "entry": entry, "cls": name, "success": False, "status": status, "message": msg, "x": x, "xkind": xk}
    table = MIN_CLASSES.get(method_entered, _GENERIC)
    name, success, status, msg = r.choice(classes or table)
    kinds = ["real", "feas", "cviol", "cviol", "bviol"]
    if success and method_entered in BOUNDS_METHODS:
        kinds = ["real", "feas", "cviol", "cviol"]  # SciPy never leaves the box it was given
    xk = r.choice(xkinds or kinds)
    if xk != "real" and not pts[xk]:
        xk = "real"
    x = "real" if xk == "real" else r.choice(pts[xk])
    calls = ["fun", "jac", "cfun", "cjac"]
    if r.random() < 0.3:
        r.shuffle(calls)
    return {"mode": "scripted", "entry": entry, "cls": name, "success": success, "status": status, "message": msg,
            "x": x, "xkind": xk, "calls": calls, "nit": r.choice([1, 3, 17])}


def make_infeasible(r, sp):
    """Append a contradictory constraint pair k0/k1 (infeasible by construction)."""
    core = [n for n in S.all_element_names(sp) if n != "w"]
    if r.random() < 0.25:
        # a constraint without any effective variable term whose constant part is violated
        a = ref_of(sp, r.choice(core))
        b = ref_of(sp, r.choice(core))
        form = r.choice(["cancel", "zeros"])
        lhs = ["-", a, a] if form == "cancel" else ["+", ["*", ["num", 0.0], a], ["*", ["num", 0.0], b]]
        sp["cons"]["k0"] = {"k": "s", "lhs": lhs, "sense": ">=", "rhs": ["num", r.choice([1.0, 2.0])]}
        sp["cons"]["k1"] = gen_lin_con(r, sp, core)
        sp["con_order"] = sorted(sp["cons"])
        return
    terms = lin_terms(r, core, 1, 2)
    a = r.choice([0.0, 1.0, 2.0])
    gap = r.choice([0.5, 1.0, 3.0])
    sp["cons"]["k0"] = {"k": "s", "lhs": render_linear(r, sp, terms), "sense": ">=", "rhs": ["num", a + gap]}
    sp["cons"]["k1"] = {"k": "s", "lhs": render_linear(r, sp, terms), "sense": "<=", "rhs": ["num", a]}
    sp["con_order"] = sorted(sp["cons"])


C06_METHODS = ["auto", "auto", "auto", "linprog", "highs", "highs-ds", "highs-ipm", "SLSQP", "SLSQP", "trust-constr", "L-BFGS-B",
               "TNC", "BFGS", "CG", "Newton-CG", "COBYLA", "Nelder-Mead", "Powell"]


def entered_method(method, sh, okind, ckinds, parametric=False):
    """Which solver the generator expects optyx to enter first (only used to pick a response table)."""
    if method in LP_METHODS:
        return "lp"
    if method != "auto":
        return method
    lin = okind == "lin" and all(k in ("lin", "vec", "newvar") for k in ckinds) and not parametric
    if lin:
        return "lp"
    if not ckinds:
        return "L-BFGS-B"
    if okind == "nl" or "nl" in ckinds:
        return "trust-constr"
    return "SLSQP"


def gen_c06_param(r):
    """Parametric constraints, several rounds of Parameter.set + re-solve through the cached
    closures (the feasibility check must use the constraint as currently parameterised)."""
    from .world import DEFAULT_KNOBS

    knobs = dict(DEFAULT_KNOBS)
    if r.random() < 0.7:
        knobs["thr_compiler"] = r.choice([2, 3, 6])
        knobs["thr_autodiff"] = r.choice([400, 2, 3])
    sp, _ = gen_c12_pool(r, deep=r.choice([0, 3, 8]))
    for g in [e for e in sp["exprs"] if e.startswith("g")]:
        del sp["exprs"][g]
    sp["expr_order"] = sorted(sp["exprs"])
    ops = [["new_model", 0, sp], ["minimize", 0, r.choice(["o0", "o0", "o1", "o3"])]]
    cands = [c for c in ("c0", "c1", "c3", "c5", "c6", "c4") if c in sp["cons"]]
    for c in r.sample(cands, r.choice([1, 2, 3])):
        ops.append(["subject_to", 0, c])
    method = r.choice(["SLSQP", "trust-constr", "auto", "COBYLA", "SLSQP"])
    ops.append(["solve", 0, {"method": method}])
    for _ in range(r.randint(1, 3)):
        for _ in range(r.choice([1, 2])):
            ops.append(gen_param_op(r, sp))
        a = {"method": method if r.random() < 0.7 else r.choice(["SLSQP", "trust-constr", "auto"])}
        if r.random() < 0.3:
            a["x0_prev"] = True
        ops.append(["solve", 0, a])
    return {"knobs": knobs, "ops": ops}


def gen_c06_bounds(r):
    """An LP whose constraints repeat declared bounds (x >= 0 on a vector declared with lb=0), solved,
    then the declared bound is relaxed and the LP solved again: the explicit constraint now binds."""
    from .world import DEFAULT_KNOBS

    n = r.choice([2, 3, 4])
    lb = r.choice([0.0, 0.0, 0.5, -1.0])
    ub = lb + r.choice([2.0, 4.0, 10.0])
    sp = {"name": "bd", "vars": [{"kind": "vector", "name": "v", "n": n, "lb": lb, "ub": ub, "domain": "continuous"},
                                 {"kind": "scalar", "name": "x", "lb": lb, "ub": ub, "domain": "continuous"}],
          "params": [], "exprs": {}, "cons": {}}
    w = [r.choice(POS) for _ in range(n)]
    sp["exprs"] = {"olo": ["+", ["lincomb", w, ["vec", "v"]], ["var", "x"]], "ohi": ["neg", ["+", ["vsum", ["vec", "v"]], ["*", ["num", 2.0], ["var", "x"]]]]}
    sp["cons"] = {
        "blo": {"k": "v", "lhs": ["vec", "v"], "sense": ">=", "rhs": lb},
        "bhi": {"k": "v", "lhs": ["vec", "v"], "sense": "<=", "rhs": ub},
        "bx": {"k": "s", "lhs": ["var", "x"], "sense": ">=", "rhs": ["num", lb]},
        "bxh": {"k": "s", "lhs": ["var", "x"], "sense": "<=", "rhs": ["num", ub]},
        "cs": {"k": "s", "lhs": ["+", ["vsum", ["vec", "v"]], ["var", "x"]], "sense": "<=", "rhs": ["num", ub * (n + 1) + 5.0]},
    }
    sp["expr_order"] = sorted(sp["exprs"])
    sp["con_order"] = sorted(sp["cons"])
    lo = r.random() < 0.5
    ops = [["new_model", 0, sp], ["minimize", 0, "olo" if lo else "ohi"]]
    for c in (["blo", "bx"] if lo else ["bhi", "bxh"]) + (["cs"] if r.random() < 0.5 else []):
        ops.append(["subject_to", 0, c])
    lpm = ["auto", "linprog", "highs-ds", "highs-ipm", "highs"]
    ops.append(["solve", 0, {"method": r.choice(lpm)}])
    names = S.all_element_names(sp)
    for e in r.sample(names, r.randint(1, len(names))):
        ops.append(["set_lb", 0, e, lb - r.choice([1.0, 3.0, 5.0])] if lo else ["set_ub", 0, e, ub + r.choice([1.0, 3.0, 5.0])])
    ops.append(["solve", 0, {"method": r.choice(lpm)}])
    if r.random() < 0.5:
        ops.append(["solve", 0, cap_iterations(r, {"method": r.choice(["SLSQP", "trust-constr", "auto"])})])
    return {"knobs": dict(DEFAULT_KNOBS), "ops": ops}


def gen_c06_scaling(r):
    """Badly scaled LPs: a coefficient below HiGHS' 1e-9 matrix threshold times a huge variable
    decides feasibility; the solver's answer has to be confirmed against the model itself."""
    from .world import DEFAULT_KNOBS

    big = r.choice([1e10, 5e10, 1e11])
    tiny = r.choice([1e-10, 2e-10, 5e-11])
    need = r.choice([0.9, 0.5, 0.99])
    if r.random() < 0.4:
        # the same effect next to a large right-hand side: tiny*a + b <= 1e9 with a up to 1e10; the
        # dropped entry is worth 1.0 .. 10.0, i.e. 1e-9 of the row's magnitude -- far above rounding
        # noise (1e-7 here), far below anything "relative to the row" with a generous factor
        cap = r.choice([1e9, 2e9, 5e8])
        sp = {"name": "sc2", "vars": [{"kind": "scalar", "name": "a", "lb": 0.0, "ub": big, "domain": "continuous"},
                                      {"kind": "scalar", "name": "b", "lb": 0.0, "ub": None, "domain": "continuous"}],
              "params": [], "exprs": {"o": ["+", ["var", "a"], ["var", "b"]], "o2": ["+", ["*", ["num", 2.0], ["var", "b"]], ["var", "a"]]},
              "cons": {"c": {"k": "s", "lhs": ["+", ["*", ["num", tiny], ["var", "a"]], ["var", "b"]], "sense": "<=", "rhs": ["num", cap]}},
              "expr_order": ["o", "o2"], "con_order": ["c"]}
        ops = [["new_model", 0, sp], ["maximize", 0, r.choice(["o", "o2"])], ["subject_to", 0, "c"]]
        for _ in range(r.choice([1, 2])):
            ops.append(["solve", 0, {"method": r.choice(["auto", "linprog", "highs-ds", "highs-ipm", "highs"])}])
        return {"knobs": dict(DEFAULT_KNOBS), "ops": ops}
    sp = {"name": "sc", "vars": [{"kind": "scalar", "name": "x", "lb": big, "ub": 2 * big, "domain": "continuous"},
                                 {"kind": "scalar", "name": "y", "lb": 0.0, "ub": 1.0, "domain": "continuous"}],
          "params": [], "exprs": {"o": ["var", "y"], "o2": ["+", ["var", "y"], ["*", ["num", 1e-12], ["var", "x"]]]},
          "cons": {"c": {"k": "s", "lhs": ["-", ["var", "y"], ["*", ["num", tiny], ["var", "x"]]], "sense": ">=", "rhs": ["num", need]},
                   "d": {"k": "s", "lhs": ["+", ["var", "y"], ["*", ["num", tiny], ["var", "x"]]], "sense": "<=", "rhs": ["num", 0.5]}},
          "expr_order": ["o", "o2"], "con_order": ["c", "d"]}
    ops = [["new_model", 0, sp], ["minimize", 0, r.choice(["o", "o2"])], ["subject_to", 0, r.choice(["c", "d"])]]
    if r.random() < 0.3:
        ops.append(["subject_to", 0, r.choice(["c", "d"])])
    for _ in range(r.choice([1, 2])):
        ops.append(["solve", 0, {"method": r.choice(["auto", "linprog", "highs-ds", "highs-ipm", "highs", "SLSQP"])}])
    return {"knobs": dict(DEFAULT_KNOBS), "ops": ops}


def gen_c06_bigm(r):
    """Indicator ("big-M") modelling with relaxed integer / binary switches: x <= M z with a small
    forced x, so the relaxed switch ends at a tiny fraction (d/M ~ 1e-7 .. 1e-6) next to an integer
    while its coefficient M is large: anything that touches such a value after the point has been
    verified (rounding, snapping, clipping) moves the constraint by M times as much."""
    from .world import DEFAULT_KNOBS

    M = r.choice([1000.0, 2000.0, 5000.0])
    frac = r.choice([2e-7, 5e-7, 8e-7, 3e-6])
    d = M * frac
    k = r.choice([0.0, 0.0, 1.0, 2.0])  # the switch sits next to k (integer switches: next to 1 or 2 as well)
    zdom = "binary" if k == 0.0 and r.random() < 0.5 else "integer"
    sp = {"name": "bigm", "vars": [{"kind": "scalar", "name": "x", "lb": 0.0, "ub": 10000.0, "domain": "continuous"},
                                     {"kind": "scalar", "name": "z", "lb": 0.0 if zdom == "integer" else None, "ub": 5.0 if zdom == "integer" else None, "domain": zdom},
                                     {"kind": "scalar", "name": "y", "lb": 0.0, "ub": 4.0, "domain": "continuous"}],
          "params": [], "exprs": {}, "cons": {}}
    X, Z, Y = ["var", "x"], ["var", "z"], ["var", "y"]
    sp["exprs"] = {"o0": ["+", Z, ["*", ["num", 0.5], ["**", ["-", Y, ["num", 1.0]], ["num", 2]]]],
                   "o1": ["+", Z, Y],
                   "o2": ["+", ["*", ["num", 3.0], Z], ["**", ["-", X, ["num", M * k + d]], ["num", 2]]]}
    sp["cons"] = {"cm": {"k": "s", "lhs": X, "sense": "<=", "rhs": ["*", ["num", M], Z]} if r.random() < 0.5 else
                        {"k": "s", "lhs": ["-", X, ["*", ["num", M], Z]], "sense": "<=", "rhs": ["num", 0.0]},
                  "cd": {"k": "s", "lhs": X, "sense": ">=", "rhs": ["num", M * k + d]},
                  "cy": {"k": "s", "lhs": ["+", Y, Z], "sense": "<=", "rhs": ["num", 6.0]}}
    sp["expr_order"] = sorted(sp["exprs"])
    sp["con_order"] = sorted(sp["cons"])
    ops = [["new_model", 0, sp], ["minimize", 0, r.choice(["o0", "o0", "o1", "o2"])], ["subject_to", 0, "cm"], ["subject_to", 0, "cd"]]
    if r.random() < 0.4:
        ops.append(["subject_to", 0, "cy"])
    for _ in range(r.choice([1, 2, 3])):
        a = {"method": r.choice(["SLSQP", "SLSQP", "trust-constr", "auto", "auto", "COBYLA", "linprog"])}
        if r.random() < 0.3:
            a["tol"] = r.choice([1e-8, 1e-10])
        if r.random() < 0.4:
            pt = {"x": M * k + d + r.choice([0.0, 1.0, 50.0]), "y": r.choice([0.5, 2.0]), "z": k + r.choice([0.5, 1.0])}
            a["x0"] = [pt[n] for n in sorted(S.problem_vars(_state_after(ops)), key=S.natural_key)]
        ops.append(["solve", 0, cap_iterations(r, a)])
        if r.random() < 0.3:
            ops.append([r.choice(["summary", "read_variables", "read_bounds"]), 0])
    return {"knobs": dict(DEFAULT_KNOBS), "ops": ops}


def gen_c06(r, tier="quick", c07=False):
    if not c07 and r.random() < 0.03:
        return gen_c06_scaling(r)
    if not c07 and r.random() < 0.04:
        return gen_c06_bigm(r)
    if not c07 and r.random() < 0.15:
        return gen_c06_param(r)
    if not c07 and r.random() < 0.07:
        return gen_c06_bounds(r)
    if r.random() < 0.06:
        return gen_single_source(r)
    knobs = gen_knobs(r, 0.7)
    kinds = r.choice([("lin",), ("lin", "quad"), ("quad", "nl"), ("lin", "quad", "nl"), ("pole", "nl", "pole")])
    parametric = r.random() < 0.25
    if parametric:
        if r.random() < 0.5:
            knobs = gen_knobs(r, 0.0)
        sp, m12 = gen_c12_pool(r, deep=r.choice([0, 0, 3, 8]))
        meta = {"okinds": {o: ("lin" if o == "o4" else "nl") for o in sp["exprs"]},
                "ckinds": {c: ("nl" if c == "c4" else "lin") for c in sp["cons"]}, "parametric": True}
        for g in [e for e in sp["exprs"] if e.startswith("g")]:
            del sp["exprs"][g]
        sp["expr_order"] = sorted(sp["exprs"])
    else:
        sp, meta = gen_pool(r, kinds=kinds, nobj=3, ncon=5, int_frac=r.choice([0.0, 0.0, 0.35]), layout=r.choice(["A", "B", "C", "D", "E", "G", "G"]) if c07 else (r.choice(["D", "D", "G"]) if r.random() < 0.25 else None))
    inf = r.random() < (0.2 if c07 else 0.4)
    if inf:
        make_infeasible(r, sp)
        meta["ckinds"]["k0"] = meta["ckinds"]["k1"] = "lin"
    ops = [["new_model", 0, sp]]
    o = r.choice(sorted(sp["exprs"]))
    ops.append([r.choice(["minimize", "maximize"] if c07 else ["minimize", "minimize", "maximize"]), 0, o])
    base = [c for c in sorted(sp["cons"]) if c not in ("k0", "k1")]
    cs = r.sample(base, r.choice([0, 1, 2, 3]))
    if "cm" in sp["cons"] and "cm" not in cs and r.random() < 0.5:
        cs.append("cm")  # element-wise matrix constraint against a non-symmetric array
    if inf:
        cs += ["k0", "k1"]
        r.shuffle(cs)
    for c in cs:
        ops.append(["subject_to", 0, c])
    for si in range(r.choice([2, 3, 3]) if parametric else r.choice([1, 1, 2, 3])):
        sh = _state_after(ops)
        method = r.choice(C06_METHODS)
        a = {"method": method}
        ent = entered_method(method, sh, meta["okinds"][sh["objective"]], [meta["ckinds"][c] for c in sh["cons"]], parametric)
        k = r.random()
        if r.random() < 0.25:
            a["tol"] = r.choice([1e-4, 1e-6, 1e-8])
        if r.random() < 0.3:
            names = sorted(S.problem_vars(sh), key=S.natural_key)
            pt = gen_point(r, sp, names)
            if ent != "lp" and names:
                a["x0"] = [pt[n] for n in names]
        if k < 0.35:
            if r.random() < 0.3 and ent != "lp":
                a["maxiter"] = r.choice([1, 2, 3, 10])
            cap_iterations(r, a)
        elif k < 0.5:
            a["peers"] = [{"mode": "truncate", "entry": 0, "k": r.choice([1, 1, 2, 3, 5])}]
        else:
            peers = [gen_peer(r, ent, sh, lp=(ent == "lp"), entry=0)]
            if ent == "SLSQP" and r.random() < 0.6:
                peers.append(gen_peer(r, "trust-constr", sh, entry=1))
            a["peers"] = peers
        if si > 0 and r.random() < 0.2 and "x0" not in a:
            a["x0_prev"] = True
        if r.random() < 0.06:
            b = {"method": a["method"], "fault": {"site": "compile", "k": r.choice([1, 2, 3, 4, 5, 7]), "exc": r.choice(["MemoryError", "RecursionError", "ValueError"])}}
            ops.append(["solve", 0, b])  # the first attempt dies while building its caches; then the retry
        ops.append(["solve", 0, a])
        if r.random() < 0.2:
            # the user looks at the model and solves it again, nothing else: looking changes nothing
            ops.append([r.choice(["summary", "summary", "summary", "repr", "read_variables", "read_bounds"]), 0])
            ops.append(["solve", 0, cap_iterations(r, {"method": r.choice(["SLSQP", "trust-constr", "auto", method])})])
        k = r.random()
        if k < 0.15:
            # an edit between solves (cached closures / LP data get rebuilt)
            ops.append(["subject_to", 0, r.choice(base)])
        elif k < 0.35:
            # objective re-installed: same expression with the other sense, or another expression
            cur = _state_after(ops)
            if r.random() < 0.6:
                ops.append(["maximize" if cur["sense"] == "min" else "minimize", 0, cur["objective"]])
            else:
                ops.append([r.choice(["minimize", "maximize"]), 0, r.choice(sorted(sp["exprs"]))])
        elif (k < 0.5 or (parametric and k < 0.85)) and sp["params"]:
            ops.append(gen_param_op(r, sp))
            if r.random() < 0.5:
                ops.append(gen_param_op(r, sp))
        elif k >= 0.88:
            # the user looks at the model between two solves; looking must not change anything
            ops.append([r.choice(["summary", "summary", "repr", "read_variables", "read_bounds", "read_n"]), 0])
        elif k < 0.6:
            e = r.choice(sorted(S.problem_vars(_state_after(ops)), key=S.natural_key) or ["w"])
            at = S.elem_attrs(_state_after(ops))[e]
            if at[2] != "binary":
                if r.random() < 0.4 and (at[0] is not None or at[1] is not None):
                    # relax a declared bound (rows that were only implied by it matter again)
                    if at[0] is not None and (at[1] is None or r.random() < 0.5):
                        ops.append(["set_lb", 0, e, at[0] - r.choice([1.0, 3.0, 6.0]) if r.random() < 0.8 else None])
                    else:
                        ops.append(["set_ub", 0, e, at[1] + r.choice([1.0, 3.0, 6.0]) if r.random() < 0.8 else None])
                elif r.random() < 0.5:
                    ops.append(["set_lb", 0, e, (at[1] if at[1] is not None else 4.0) - r.choice([0.5, 1.0, 2.0])])
                else:
                    ops.append(["set_ub", 0, e, (at[0] if at[0] is not None else -4.0) + r.choice([0.5, 1.0, 2.0])])
    if ops[-1][0] != "solve":
        ops.append(["solve", 0, cap_iterations(r, {"method": r.choice(C06_METHODS)})])
    return {"knobs": knobs, "ops": ops}


def gen_c07_deep_lp(r):
    """A linear objective with a constant term, written as a 1100-1500 term running sum: it can be
    analysed only inside increased_recursion_limit; the solve is then repeated outside the with-block
    (after a bound edit, or as it is) -- whatever is cached by then, a reported objective value must
    still be the objective at the reported point."""
    from .world import DEFAULT_KNOBS

    n = r.choice([1100, 1300, 1500])
    k0 = r.choice([1000.0, -250.0, 12.5])
    terms = [["vel", "v", 0], ["*", ["num", r.choice([2.0, 0.5, -1.0])], ["vel", "v", 1]], ["var", "x"], ["num", k0]]
    sp = {"name": "dlp", "vars": [{"kind": "vector", "name": "v", "n": 2, "lb": 0.0, "ub": 4.0, "domain": "continuous"},
                                   {"kind": "scalar", "name": "x", "lb": 0.0, "ub": 3.0, "domain": "continuous"}],
          "params": [],
          "exprs": {"o": ["chain", "+", terms + [["num", 0.0]] * n]},
          "cons": {"c": {"k": "s", "lhs": ["+", ["vel", "v", 0], ["vel", "v", 1]], "sense": ">=", "rhs": ["num", 2.5]}},
          "expr_order": ["o"], "con_order": ["c"]}
    lim = r.choice([20000, 30000])
    lpm = ["auto", "linprog", "highs-ds"]
    ops = [["new_model", 0, sp], [r.choice(["minimize", "maximize"]), 0, "o"], ["subject_to", 0, "c"],
           ["with_reclimit", lim, ["solve", 0, {"method": r.choice(lpm)}]]]
    if r.random() < 0.5:
        ops.append(["set_ub", 0, r.choice(["x", "v[0]", "v[1]"]), r.choice([2.0, 2.5, 5.0])])
    ops.append(["solve", 0, {"method": r.choice(lpm)}])
    if r.random() < 0.5:
        ops.append(["with_reclimit", lim, ["solve", 0, {"method": r.choice(lpm + ["SLSQP"]), "maxiter": 50}]])
    return {"knobs": dict(DEFAULT_KNOBS), "ops": ops}


def gen_c07_param(r):
    """The objective carries Parameters; the solver peer answers every solve with the SAME point
    (an optimum pinned by bounds does that) while the parameters move in between: the objective
    value reported each time must be the objective as currently parameterised at that point."""
    from .world import DEFAULT_KNOBS

    sp, _ = gen_c12_pool(r, deep=0)
    for g in [e for e in sp["exprs"] if e.startswith("g")]:
        del sp["exprs"][g]
    sp["expr_order"] = sorted(sp["exprs"])
    ops = [["new_model", 0, sp], [r.choice(["minimize", "maximize"]), 0, r.choice([o for o in ("o0", "o1", "o1", "o2", "o4", "o5", "on", "opw") if o in sp["exprs"]])]]
    names, pts = classify_points(r, _state_after(ops), 20)
    if not pts["feas"]:
        return gen_c06(r, "quick", c07=True)
    x = r.choice(pts["feas"])
    method = r.choice(["SLSQP", "L-BFGS-B", "trust-constr", "SLSQP"])

    def solve():
        peer = {"mode": "scripted", "entry": 0, "cls": "gen-success", "success": True, "status": 0,
                "message": "Optimization terminated successfully.", "x": x, "xkind": "feas"}
        return ["solve", 0, {"method": method, "peers": [peer]}]

    ops.append(solve())
    for _ in range(r.randint(1, 3)):
        for _ in range(r.choice([1, 2])):
            ops.append(gen_param_op(r, sp))
        ops.append(solve())
    return {"knobs": dict(DEFAULT_KNOBS), "ops": ops}


def gen_c07(r, tier="quick"):
    if r.random() < 0.02:
        return gen_c07_deep_lp(r)
    if r.random() < 0.05:
        return gen_c07_param(r)
    return gen_c06(r, tier, c07=True)


# --------------------------------------------------------------------------
# C20: faults at the solver seam
# --------------------------------------------------------------------------

EXC_CLASSES = ["ValueError", "FloatingPointError", "MemoryError", "KeyboardInterrupt"]
C20_NLP = ["SLSQP", "SLSQP", "trust-constr", "trust-constr", "L-BFGS-B", "Newton-CG", "TNC", "BFGS", "CG", "COBYLA", "Nelder-Mead", "Powell", "auto", "auto", "auto"]
HESS_METHODS = ["trust-constr", "Newton-CG"]


def gen_c20_scenario(r):
    """Prefix ops, the solve to be faulted (without fault) and suffix ops."""
    kinds = r.choice([("lin",), ("quad",), ("quad", "nl"), ("lin", "quad", "nl"), ("quad", "quad", "lin")])
    deep = 405 if r.random() < 0.12 else 0  # really deep trees: the iterative compiler / gradient paths
    if deep:
        kinds = ("lin", "lin", "quad")
    sp, meta = gen_pool(r, kinds=kinds, nobj=3, ncon=5, deep=deep)
    ops = [["new_model", 0, sp]]
    o = r.choice(sorted(sp["exprs"]))
    ops.append([r.choice(["minimize", "minimize", "maximize"]), 0, o])
    for c in r.sample(sorted(sp["cons"]), r.choice([0, 1, 2, 3])):
        ops.append(["subject_to", 0, c])
    sh = _state_after(ops)
    lin = meta["okinds"][o] == "lin" and all(meta["ckinds"][c] in ("lin", "vec", "newvar") for c in sh["cons"])
    if lin and r.random() < (0.3 if deep else 0.7):
        method = r.choice(["auto", "linprog", "highs-ds", "highs-ipm"])
    else:
        method = r.choice(C20_NLP if not deep else ["SLSQP", "trust-constr", "L-BFGS-B", "BFGS", "TNC"])
    warm = r.random() < 0.5
    if warm:
        # caches warm; hess_fn present or absent depending on the warm-up method
        ops.append(["solve", 0, {"method": r.choice([method, method, "SLSQP", "trust-constr", "auto"])}])
    a = {"method": method}
    if r.random() < 0.2:
        a["use_hessian"] = False
    if r.random() < 0.3 and method not in LP_METHODS:
        a["maxiter"] = r.choice([2, 5, 20])
    cap_iterations(r, a)
    target = ["solve", 0, a]
    suffix = [["solve", 0, cap_iterations(r, {"method": method})], ["solve", 0, cap_iterations(r, {"method": r.choice(HESS_METHODS + ["auto", "SLSQP"])})]]
    if r.random() < 0.3:
        suffix[0][2]["x0_prev"] = True
    elif method not in LP_METHODS and method != "auto" and r.random() < 0.35:
        # the user retries from the very same explicit start point (a point well inside the box,
        # where the objective's terms are not negligible): whatever the failed attempt left behind
        # for that point is asked for again
        names = sorted(S.problem_vars(sh), key=S.natural_key)
        if names:
            pt = gen_point(r, sp, names)
            a["x0"] = [pt[n] for n in names]
            suffix[0][2]["x0"] = list(a["x0"])
    if r.random() < 0.3:
        suffix.insert(1, ["read_bounds", 0])
    return {"prefix": ops, "target": target, "suffix": suffix, "lin": lin, "sh": sh, "meta": meta, "deep": deep}


def with_fault(target, fault, reclimit=None, peers=None):
    import copy

    t = copy.deepcopy(target)
    t[2]["fault"] = fault
    if peers:
        t[2]["peers"] = peers
    if reclimit is not None:
        return ["with_reclimit", reclimit, t]
    return t


def gen_fault(r, kmax=40, lp=False):
    exc = r.choice(EXC_CLASSES)
    k = r.random()
    if lp:
        return {"site": r.choice(["entry", "exit"]), "exc": exc}
    if k < 0.15:
        return {"site": "entry", "exc": exc}
    if k < 0.3:
        return {"site": "exit", "exc": exc}
    kk = r.choice([1, 1, 2, 2, 3, 4, 5, 7, 9, 12, 16, 25, kmax])
    if k < 0.36:
        # the n-th call of a compile entry point during this solve raises: while the caches are
        # built, or -- if compilation is deferred -- inside the callback that triggers it
        if r.random() < 0.3:
            return {"site": "compile", "of": r.choice(["compile_hessian", "compile_hessian", "compile_jacobian"]), "k": r.choice([1, 1, 2]), "exc": exc}
        return {"site": "compile", "k": r.choice([1, 2, 3, 3, 4, 5, 6, 7, 8, 10, 12, 15, 20]), "exc": exc}
    if k < 0.48:
        # a compiled callable raises when optyx itself evaluates it after the solver returned
        # (post-solve feasibility check), or at its n-th evaluation overall
        if r.random() < 0.45:
            return {"site": "eval", "after_exit": r.choice([1, 1, 2, 3, 4]), "exc": exc}
        if r.random() < 0.5:
            # the k-th evaluation of one kind of compiled callable (value / Jacobian / Hessian)
            return {"site": "eval", "of": r.choice(["compile_hessian", "compile_hessian", "compile_jacobian", "compile_expression"]), "k": r.choice([1, 2, 2, 3, 4]), "exc": exc}
        return {"site": "eval", "k": r.choice([1, 2, 3, 5, 8, 13, 30]), "exc": exc}
    if k < 0.6:
        # the callback raises part-way through its own evaluation (j-th line executed inside optyx code)
        # (half of the time deep inside it: the closures of vector / matrix nodes are reached only after
        # the wrapper's and the outer evaluators' own lines)
        j = r.choice([1, 2, 2, 3, 3, 4, 5, 6, 8, 12]) if r.random() < 0.5 else r.randint(7, 48)
        return {"site": "cbi", "k": r.choice([1, 1, 1, 2, 2, 3, 4, 6]), "j": j, "exc": exc}
    return {"site": "cb", "k": kk, "exc": exc}


def gen_c20_recursion(r):
    """A model that cannot be solved at the default recursion limit (an element of a vector
    expression is a ~1100-term chain inside a >= 400-deep objective): the first solve dies with
    RecursionError (or whatever optyx turns it into); the documented remedy -- the same solve
    inside increased_recursion_limit -- must then behave as on a fresh problem."""
    from .world import DEFAULT_KNOBS

    n = r.choice([1050, 1150, 1300])
    deep_el = ["chain", "+", [["vel", "v", 0]] + [["num", 0.0]] * n]
    sp = {"name": "rec", "vars": [{"kind": "vector", "name": "v", "n": 2, "lb": 0.0, "ub": 4.0, "domain": "continuous"},
                                  {"kind": "scalar", "name": "x", "lb": 0.0, "ub": 3.0, "domain": "continuous"}],
          "params": [],
          "exprs": {"o": ["chain", "+", [["vsum", ["vexpr", [deep_el, ["vel", "v", 1]]]], ["var", "x"]] + [["num", 0.0]] * 405],
                    "o2": ["+", ["var", "x"], ["vel", "v", 1]]},
          "cons": {"c": {"k": "s", "lhs": ["+", ["var", "x"], ["vel", "v", 1]], "sense": ">=", "rhs": ["num", 1.0]}},
          "expr_order": ["o", "o2"], "con_order": ["c"]}
    lim = r.choice([20000, 30000])
    meth = r.choice(["auto", "SLSQP", "L-BFGS-B", "auto"])
    ops = [["new_model", 0, sp], [r.choice(["minimize", "maximize"]), 0, "o"]]
    if r.random() < 0.5:
        ops.append(["subject_to", 0, "c"])
    ops.append(["solve", 0, {"method": meth}])  # default limit: expected to die
    if r.random() < 0.5:
        ops.append(["read_variables", 0])
    ops.append(["with_reclimit", lim, ["solve", 0, cap_iterations(r, {"method": meth})]])
    ops.append(["with_reclimit", lim, ["read_variables", 0]])
    return {"knobs": dict(DEFAULT_KNOBS), "ops": ops}


def gen_c20(r, tier="quick"):
    if r.random() < 0.04:
        return gen_c20_recursion(r)
    knobs = gen_knobs(r, 0.7)
    sc = gen_c20_scenario(r)
    ops = list(sc["prefix"])
    lp_target = sc["target"][2]["method"] in LP_METHODS or (sc["target"][2]["method"] == "auto" and sc["lin"])
    reclimit = r.choice([None, None, 3000, 5000])
    peers = None
    k = r.random()
    if not lp_target and k < 0.2:
        # a peer that calls back in an order SciPy never uses, then the fault hits one of those calls
        calls = [r.choice(["hess", "jac", "cjac", "cfun", "fun"]) for _ in range(r.randint(3, 8))]
        names, pts = classify_points(r, sc["sh"], 20)
        x = r.choice(pts["any"]) if pts["any"] else "real"
        peers = [{"mode": "scripted", "entry": 0, "cls": "odd-order", "success": r.random() < 0.5, "status": 0,
                  "message": "Optimization terminated successfully", "x": x, "xkind": "any" if x != "real" else "real", "calls": calls}]
    elif not lp_target and k < 0.3 and sc["target"][2]["method"] == "SLSQP" and sc["sh"]["cons"]:
        # force the SLSQP -> trust-constr retry and fault the retry entry
        names, pts = classify_points(r, sc["sh"], 60)
        if pts["cviol"]:
            peers = [{"mode": "scripted", "entry": 0, "cls": "slsqp-0", "success": True, "status": 0,
                      "message": "Optimization terminated successfully", "x": r.choice(pts["cviol"]), "xkind": "cviol"}]
    fault = gen_fault(r, lp=lp_target)
    if fault["site"] == "compile" and "of" in fault and ops[-1][0] == "solve":
        ops.pop()  # cold: a warm-up solve would have left that callable in the problem's cache
    if sc["deep"] and r.random() < 0.5:
        fault["exc"] = "KeyboardInterrupt"  # the class that only `finally` (not `except Exception`) handles
    if peers and peers[0]["cls"] == "slsqp-0":
        fault["entry"] = 1
        if fault["site"] in ("cb", "cbi"):
            fault["k"] += 4
    if r.random() < 0.25:
        ops.append(["swap_hook"])  # the application installs another showwarning hook before this solve
    ops.append(with_fault(sc["target"], fault, reclimit, peers))
    if r.random() < 0.25:
        ops.append(with_fault(sc["target"], gen_fault(r, lp=lp_target)))  # double fault
    if r.random() < 0.15:
        ops.append(["swap_hook"])
    ops.extend(sc["suffix"])
    return {"knobs": knobs, "ops": ops}


# --------------------------------------------------------------------------
# C18: integrality
# --------------------------------------------------------------------------


def redeclared_spec(r, sp, int_frac=0.5):
    """Same names and expressions; other domains / bounds / parameter values."""
    import copy

    m = copy.deepcopy(sp)
    for d in m["vars"]:
        k = r.random()
        if k < int_frac:
            d["domain"] = r.choice(["integer", "integer", "binary"]) if d.get("domain", "continuous") == "continuous" else "continuous"
        if r.random() < 0.4 and d.get("domain") != "binary":
            d["lb"], d["ub"] = gen_bounds(r)
    for d in m.get("params", []):
        if d["kind"] == "scalar":
            d["value"] = r.choice(PGRID)
    m.pop("ov", None)
    return m


def gen_redeclare(r, int_frac=0.0, strict_frac=0.0):
    """Constraint-free problem: solve, re-declare the variables under the same names, install an
    objective built from the new objects, solve again (the variable list must be the new objects)."""
    deep = 405 if r.random() < 0.4 else 0
    kinds = ("lin", "lin", "lin", "quad") if deep else ("lin", "quad", "nl", "lin")
    sp, meta = gen_pool(r, kinds=kinds, int_frac=int_frac, nobj=5, ncon=1, deep=deep)
    knobs = gen_knobs(r, 0.7)
    onames = sorted(sp["exprs"])
    ops = [["new_model", 0, sp], [r.choice(["minimize", "maximize"]), 0, r.choice(onames)]]

    def solve():
        a = cap_iterations(r, {"method": r.choice(C13_METHODS)})
        if r.random() < strict_frac:
            a["strict"] = True
        return ["solve", 0, a]

    for _ in range(r.randint(1, 3)):
        ops.append(solve() if r.random() < 0.7 else [r.choice(["read_variables", "read_bounds", "repr"]), 0])
    cur = sp
    deep_names = [o for o in onames if sp["exprs"][o][0] == "chain" and len(sp["exprs"][o][2]) > 400]
    if deep and deep_names:
        # many rebuild rounds on really deep objectives: the old trees are freed, the new ones are
        # allocated where the old ones were (anything keyed by id() / address goes stale)
        for _ in range(r.randint(8, 14)):
            cur = redeclared_spec(r, cur, int_frac)
            ops.append(["redeclare", 0, cur, r.choice(["minimize", "maximize"]), r.choice(deep_names if r.random() < 0.8 else onames)])
            ops.append([r.choice(["read_variables", "read_bounds", "read_n"]), 0])
            if r.random() < 0.4:
                ops.append(["solve", 0, {"method": r.choice(["auto", "linprog", "highs-ds"])}])
        return {"knobs": knobs, "ops": ops}
    for _ in range(r.choice([1, 1, 2])):
        cur = redeclared_spec(r, cur, max(int_frac, 0.3))
        ops.append(["redeclare", 0, cur, r.choice(["minimize", "maximize"]), r.choice(onames)])
        for _ in range(r.randint(1, 3)):
            ops.append(solve() if r.random() < 0.75 else [r.choice(["read_variables", "read_bounds"]), 0])
    return {"knobs": knobs, "ops": ops}


def gen_c18_many(r):
    """More than ten non-continuous variables in one problem (names must all be listed)."""
    from .world import DEFAULT_KNOBS

    sp, meta = gen_pool(r, kinds=("lin", "quad"), layout="F", int_frac=1.0, nobj=3, ncon=3)
    ops = [["new_model", 0, sp]]
    sp["exprs"]["oall"] = ["+", ["vsum", ["vec", "v"]], ["var", "x"]] if r.random() < 0.5 else ["+", ["dot", ["vec", "v"], ["vec", "v"]], ["var", "x"]]
    sp["expr_order"] = sorted(sp["exprs"])
    ops.append([r.choice(["minimize", "maximize"]), 0, "oall"])
    for c in r.sample(sorted(sp["cons"]), r.choice([0, 1, 2])):
        ops.append(["subject_to", 0, c])
    for _ in range(r.randint(2, 4)):
        ops.append(["solve", 0, cap_iterations(r, {"method": r.choice(C13_METHODS), "strict": r.random() < 0.6})])
    return {"knobs": dict(DEFAULT_KNOBS), "ops": ops}


def gen_c18_single_vector(r):
    """Every expression of the model is a reduction over ONE VectorVariable object (the fast path of
    variable discovery), and single ELEMENTS get a domain of their own (v[1].domain = "integer", or
    an integer vector with one element made continuous): integrality is a property of each element."""
    from .world import DEFAULT_KNOBS

    n = r.choice([3, 4])
    lb, ub = gen_bounds(r, finite=1.0)
    dom = r.choice(["continuous", "continuous", "integer"])
    sp = {"name": "sv", "share_views": True, "vars": [{"kind": "vector", "name": "v", "n": n, "lb": lb, "ub": ub, "domain": dom}],
          "params": [], "exprs": {}, "cons": {}}
    V = ["vec", "v"]
    sp["exprs"] = {"o0": ["lincomb", [r.choice(COEFS) for _ in range(n)], V], "o1": ["vsum", V],
                   "o2": ["-", ["dot", V, V], ["vsum", V]]}
    sp["cons"] = {"c0": {"k": "s", "lhs": ["vsum", V], "sense": r.choice(["<=", ">="]), "rhs": ["num", (lb + ub) / 2.0 * n]},
                  "c1": {"k": "s", "lhs": ["lincomb", [r.choice(POS) for _ in range(n)], V], "sense": "<=", "rhs": ["num", ub * n + 1.0]}}
    sp["expr_order"] = sorted(sp["exprs"])
    sp["con_order"] = sorted(sp["cons"])
    ops = [["new_model", 0, sp], [r.choice(["minimize", "maximize"]), 0, r.choice(["o0", "o0", "o1", "o2"])]]
    for c in r.sample(["c0", "c1"], r.choice([0, 1, 2])):
        ops.append(["subject_to", 0, c])
    meths = ["auto", "auto", "linprog", "highs-ds", "SLSQP", "trust-constr", "L-BFGS-B"]
    if r.random() < 0.4:
        ops.append(["solve", 0, cap_iterations(r, {"method": r.choice(meths), "strict": r.random() < 0.5})])
    for _ in range(r.randint(1, 3)):
        for e in r.sample(range(n), r.choice([1, 1, 2])):
            ops.append(["set_domain", 0, f"v[{e}]", "integer" if dom == "continuous" or r.random() < 0.3 else "continuous"])
        for _ in range(r.choice([1, 2])):
            a = {"method": r.choice(meths), "strict": r.random() < 0.5}
            if r.random() < 0.3:
                a["same_site"] = True
            ops.append(["solve", 0, cap_iterations(r, a)])
    return {"knobs": dict(DEFAULT_KNOBS), "ops": ops}


def gen_c18(r, tier="quick"):
    if r.random() < 0.06:
        return gen_c18_many(r)
    if r.random() < 0.07:
        return gen_c18_single_vector(r)
    if r.random() < 0.12:
        return gen_redeclare(r, int_frac=0.4, strict_frac=0.45)
    return gen_c13(r, int_frac=r.choice([0.3, 0.6, 1.0]), strict_frac=0.45, maxlen=16)


def c18_sweep_cases(tier):
    """Declaration route x domain x method x strict, on a linear and a quadratic model."""
    from .world import DEFAULT_KNOBS

    knobs = dict(DEFAULT_KNOBS)
    methods = ALL_METHODS if tier == "thorough" else ["auto", "linprog", "SLSQP", "trust-constr", "L-BFGS-B", "COBYLA"]
    quick = tier != "thorough"
    count = 0
    decls = {
        "scalar": ({"kind": "scalar", "name": "b"}, [("elem", ["elem", "b"], ["var", "b"])]),
        "vector": ({"kind": "vector", "name": "b", "n": 3}, [
            ("vec", ["vec", "b"], ["vsum", ["vec", "b"]]),
            ("vslice", ["vslice", "b", 1, 3], ["vsum", ["vslice", "b", 1, 3]]),
            ("vel", ["elem", "b[2]"], ["vel", "b", 2]),
        ]),
        "from_numpy": ({"kind": "vector", "name": "b", "n": 3, "via": "from_numpy"}, [
            ("vec", ["vec", "b"], ["vsum", ["vec", "b"]]),
            ("vrev", ["vrev", "b"], ["vsum", ["vrev", "b"]]),
        ]),
        "matrix": ({"kind": "matrix", "name": "b", "rows": 2, "cols": 3}, [
            ("mrow", ["mrow", "b", 1], ["vsum", ["mrow", "b", 1]]),
            ("mcol", ["mcol", "b", 2], ["vsum", ["mcol", "b", 2]]),
            ("mTrow", ["mTrow", "b", 1], ["vsum", ["mTrow", "b", 1]]),
            ("msubrow", ["msubrow", "b", 1, 1, 3], ["vsum", ["msubrow", "b", 1, 1, 3]]),
            ("mT", ["mT", "b"], ["mel", "b", 1, 2]),
            ("msub", ["msub", "b", 0, 2, 1, 3], ["mel", "b", 0, 1]),
        ]),
        "symmetric": ({"kind": "matrix", "name": "b", "rows": 2, "cols": 2, "symmetric": True}, [
            ("mdiag", ["mdiag", "b"], ["vsum", ["mdiag", "b"]]),
            ("mel-lower", ["elem", "b[0,1]"], ["mel", "b", 1, 0]),
            ("mT", ["mT", "b"], ["mel", "b", 0, 1]),
        ]),
    }
    for dom in ("integer", "binary", "binary-wide", "integer-pinned"):
        for dname, (decl, routes) in decls.items():
            for rname, route, e in routes:
                d = dict(decl, domain=dom.split("-")[0])
                if dom == "integer":
                    d["lb"], d["ub"] = 0.0, 4.0
                elif dom == "integer-pinned":
                    d["lb"], d["ub"] = 1.5, 1.5  # bounds pin the integer to a fractional value: still integer
                elif dom == "binary-wide":
                    d["lb"], d["ub"] = -2.0, 3.0  # declared wider than [0,1]: binary must still carry [0,1]
                sp = {
                    "name": "int",
                    "vars": [d, {"kind": "scalar", "name": "x", "lb": 0.0, "ub": 3.0, "domain": "continuous"}],
                    "params": [],
                    "exprs": {
                        "olin": ["+", ["*", ["num", -1.5], e], ["*", ["num", 2.0], ["var", "x"]]],
                        "oquad": ["+", ["**", ["-", e, ["num", 0.3]], ["num", 2]], ["**", ["-", ["var", "x"], ["num", 1.0]], ["num", 2]]],
                    },
                    "cons": {"c0": {"k": "s", "lhs": ["+", e, ["var", "x"]], "sense": "<=", "rhs": ["num", 2.6]}},
                }
                sp["expr_order"] = sorted(sp["exprs"])
                sp["con_order"] = sorted(sp["cons"])
                count += 1
                for oname in (("olin", "oquad")[count % 2 :][:1] if quick else ("olin", "oquad")):
                    for meth in methods:
                        ops = [["new_model", 0, sp], ["read_elems", 0, route], ["minimize", 0, oname], ["subject_to", 0, "c0"],
                               ["solve", 0, {"method": meth, "strict": True}],
                               ["solve", 0, {"method": meth}],
                               ["solve", 0, {"method": meth, "strict": True}]]
                        yield f"{dom}:{dname}:{rname}:{oname}:{meth}", {"knobs": knobs, "ops": ops}


# --------------------------------------------------------------------------
# C13: bounded exhaustive sweep over a reduced alphabet
# --------------------------------------------------------------------------

C13_POOLS = [
    {
        "name": "sw0",
        "vars": [
            {"kind": "scalar", "name": "x", "lb": 0.0, "ub": 4.0, "domain": "continuous"},
            {"kind": "scalar", "name": "y", "lb": 0.0, "ub": 3.0, "domain": "continuous"},
            {"kind": "scalar", "name": "w", "lb": 0.0, "ub": 2.0, "domain": "continuous"},
        ],
        "params": [],
        "exprs": {
            "olin": ["+", ["+", ["*", ["num", 2.0], ["var", "x"]], ["var", "y"]], ["num", 5.0]],
            "olin2": ["-", ["*", ["num", 3.0], ["var", "y"]], ["var", "w"]],  # other variable set: x leaves, w enters
            "oquad": ["+", ["**", ["-", ["var", "x"], ["num", 1.0]], ["num", 2]], ["**", ["-", ["var", "y"], ["num", 2.5]], ["num", 2]]],
        },
        "cons": {
            "clin": {"k": "s", "lhs": ["+", ["var", "x"], ["var", "y"]], "sense": ">=", "rhs": ["num", 1.0]},
            "cnl": {"k": "s", "lhs": ["*", ["var", "x"], ["var", "y"]], "sense": ">=", "rhs": ["num", 0.5]},
            "cnew": {"k": "s", "lhs": ["+", ["var", "x"], ["var", "w"]], "sense": "<=", "rhs": ["num", 3.0]},
        },
        "lbvar": "x",
    },
    {
        "name": "sw1",
        "vars": [
            {"kind": "vector", "name": "v", "n": 3, "lb": 0.0, "ub": 5.0, "domain": "continuous"},
            {"kind": "scalar", "name": "w", "lb": -1.0, "ub": 2.0, "domain": "continuous"},
        ],
        "params": [],
        "exprs": {
            "olin": ["lincomb", [1.0, 2.0, 3.0], ["vec", "v"]],
            "olin2": ["+", ["+", ["vel", "v", 1], ["vel", "v", 2]], ["var", "w"]],  # v[0] leaves, w enters
            "oquad": ["+", ["dot", ["vec", "v"], ["vec", "v"]], ["neg", ["vel", "v", 0]]],
        },
        "cons": {
            "clin": {"k": "s", "lhs": ["vsum", ["vec", "v"]], "sense": ">=", "rhs": ["num", 1.5]},
            "cnl": {"k": "s", "lhs": ["+", ["**", ["vel", "v", 0], ["num", 2]], ["**", ["vel", "v", 1], ["num", 2]]], "sense": "<=", "rhs": ["num", 4.0]},
            "cnew": {"k": "s", "lhs": ["+", ["vel", "v", 2], ["var", "w"]], "sense": ">=", "rhs": ["num", 0.5]},
        },
        "lbvar": "v[1]",
    },
]


def c14_sweep_cases(tier):
    """Prefix-length sweep ("however many expressions have passed through the caches"): an adversary
    N that shares variable names with the target M at other positions, then EVERY number k of
    throw-away compilations over k distinct variable orderings (0..K), then M observed.  Whatever
    fixed-size table, ring or LRU sits between the two models, its wrap-around falls on some k."""
    from .world import DEFAULT_KNOBS

    def V(name, lb, ub):
        return {"kind": "scalar", "name": name, "lb": lb, "ub": ub, "domain": "continuous"}

    N = {"name": "n", "vars": [V("y", 0.0, 3.0), V("z", 0.0, 3.0)], "params": [],
         "exprs": {"o0": ["+", ["*", ["var", "y"], ["var", "z"]], ["**", ["-", ["var", "y"], ["num", 1.0]], ["num", 2]]]},
         "cons": {"c0": {"k": "s", "lhs": ["*", ["var", "y"], ["var", "z"]], "sense": "<=", "rhs": ["num", 2.0]}},
         "expr_order": ["o0"], "con_order": ["c0"]}
    M = {"name": "m", "vars": [V("x", 0.0, 3.0), V("y", 0.0, 3.0), V("z", 0.0, 3.0)], "params": [],
         "exprs": {"o0": ["chain", "+", [["**", ["-", ["var", "x"], ["num", 3.0]], ["num", 2]], ["**", ["-", ["var", "y"], ["num", 1.0]], ["num", 2]], ["**", ["var", "z"], ["num", 2]]]],
                   "o1": ["*", ["var", "x"], ["var", "y"]]},
         "cons": {"c0": {"k": "s", "lhs": ["*", ["var", "x"], ["var", "y"]], "sense": "<=", "rhs": ["num", 2.0]}},
         "expr_order": ["o0", "o1"], "con_order": ["c0"]}
    pN = {"y": 1.5, "z": 0.5}
    pM = {"x": 0.5, "y": 1.5, "z": 0.25}
    K, step = (48, 3) if tier == "quick" else (400, 1)
    for k in range(0, K + 1, step):
        ops = [["new_model", 1, N], ["minimize", 1, "o0"], ["subject_to", 1, "c0"],
               ["compile", 1, "h0", "jac", {"es": ["o0"], "order": ["y", "z"]}], ["call", 1, "h0", pN],
               ["solve", 1, {"method": "SLSQP"}]]
        if k:
            ops.append(["flood", k, "q", "orders"])
        ops += [["new_model", 0, M], ["minimize", 0, "o0"], ["subject_to", 0, "c0"],
                ["compile", 0, "h0", "jac", {"es": ["o1"], "order": ["x", "y", "z"]}], ["call", 0, "h0", pM],
                ["compile", 0, "h1", "hess", {"e": "o1", "order": ["x", "y", "z"]}], ["call", 0, "h1", pM],
                ["solve", 0, {"method": "SLSQP"}], ["solve", 0, {"method": "trust-constr", "maxiter": 120}]]
        yield f"prefix-orders:k{k}", {"knobs": dict(DEFAULT_KNOBS), "ops": ops}


def c13_alphabet(pool):
    return [
        ["minimize", 0, "olin"],
        ["minimize", 0, "oquad"],
        ["maximize", 0, "olin2"],
        ["subject_to", 0, "clin"],
        ["subject_to", 0, "cnl"],
        ["subject_to", 0, "cnew"],
        ["set_lb", 0, pool["lbvar"], 1.25],
        ["solve", 0, {"method": "auto"}],
        ["solve", 0, {"method": "linprog"}],
        ["solve", 0, {"method": "SLSQP"}],
        ["solve", 0, {"method": "trust-constr"}],
        ["read_variables", 0],
    ]


def c13_sweep_cases(tier):
    import itertools

    from .world import DEFAULT_KNOBS

    maxlen = 2 if tier == "quick" else 4
    for pool in C13_POOLS:
        sp = {k: v for k, v in pool.items() if k != "lbvar"}
        sp["expr_order"] = sorted(sp["exprs"])
        sp["con_order"] = sorted(sp["cons"])
        alpha = c13_alphabet(pool)
        obs = {7, 8, 9, 10, 11}
        for n in range(1, maxlen + 1):
            for seq in itertools.product(range(len(alpha)), repeat=n):
                if seq[-1] not in obs:
                    continue
                ops = [["new_model", 0, sp]] + [alpha[i] for i in seq]
                yield f"{pool['name']}:" + ".".join(map(str, seq)), {"knobs": dict(DEFAULT_KNOBS), "ops": ops}


def c06_sweep_cases(tier, c07=False):
    """For seeded problems: EVERY (method, response class, x kind) of the scripted-peer table,
    plus the SLSQP 'success with violated constraint' -> trust-constr retry crossed with every
    trust-constr class."""
    from .world import DEFAULT_KNOBS

    nprob = 1 if tier == "quick" else 10
    made = 0
    i = 0
    while made < nprob and i < 100:
        r = random.Random(run_seed(606, "C06-sweep" + ("7" if c07 else ""), i))
        i += 1
        kinds = r.choice([("lin",), ("quad",), ("quad", "nl")])
        sp, meta = gen_pool(r, kinds=kinds, nobj=2, ncon=4, layout=r.choice(["A", "B", "D"]))
        ops0 = [["new_model", 0, sp], [r.choice(["minimize", "maximize"]), 0, r.choice(sorted(sp["exprs"]))]]
        for c in r.sample(sorted(sp["cons"]), 2):
            ops0.append(["subject_to", 0, c])
        sh = _state_after(ops0)
        lin = meta["okinds"][sh["objective"]] == "lin" and all(meta["ckinds"][c] in ("lin", "vec", "newvar") for c in sh["cons"])
        names, pts = classify_points(r, sh)
        if not pts["cviol"] or not pts["any"]:
            continue
        made += 1
        tag0 = f"p{i - 1}"
        if lin:
            for meth in LP_METHODS + ["auto"]:
                for cls in LP_CLASSES:
                    for xk in (["real"] if cls[1] else ["none", "any", "real"]):
                        peer = gen_peer(r, "lp", sh, lp=True, classes=[cls], xkinds=[xk])
                        yield f"{tag0}:{meth}:{cls[0]}:{xk}", {"knobs": dict(DEFAULT_KNOBS), "ops": ops0 + [["solve", 0, {"method": meth, "peers": [peer]}]]}
        for meth in NLP_CORE + NLP_MORE:
            for cls in MIN_CLASSES.get(meth, _GENERIC):
                for xk in ("real", "feas", "cviol", "bviol"):
                    if xk == "bviol" and cls[1] and meth in BOUNDS_METHODS:
                        continue  # SciPy never leaves the box it was given
                    if xk != "real" and not pts[xk]:
                        continue
                    peer = gen_peer(r, meth, sh, classes=[cls], xkinds=[xk])
                    yield f"{tag0}:{meth}:{cls[0]}:{xk}", {"knobs": dict(DEFAULT_KNOBS), "ops": ops0 + [["solve", 0, {"method": meth, "peers": [peer]}]]}
        # retry path: SLSQP claims success at a violating point, then every trust-constr answer
        first = gen_peer(r, "SLSQP", sh, classes=[MIN_CLASSES["SLSQP"][0]], xkinds=["cviol"])
        for cls in MIN_CLASSES["trust-constr"]:
            for xk in ("real", "feas", "cviol"):
                if xk != "real" and not pts[xk]:
                    continue
                second = gen_peer(r, "trust-constr", sh, entry=1, classes=[cls], xkinds=[xk])
                yield f"{tag0}:retry:{cls[0]}:{xk}", {"knobs": dict(DEFAULT_KNOBS), "ops": ops0 + [["solve", 0, {"method": "SLSQP", "peers": [first, second]}]]}


def c07_sweep_cases(tier):
    return c06_sweep_cases(tier, c07=True)


# --------------------------------------------------------------------------
# variable naming styles (a structural rename of a finished case)
# --------------------------------------------------------------------------

_NAT = {"A": "q1", "u": "q2", "v": "q9", "w": "q10", "x": "q11", "y": "q100", "z": "q101"}
_UNI = {"A": "Α", "u": "α", "v": "β", "w": "γ", "x": "δ", "y": "ε", "z": "ζ"}
NAME_STYLES = ["under", "under", "nat", "uni", "dunder"]


def _name_map(names, style):
    """Order-preserving (natural order) renamings: leading underscore (private-looking names),
    numbered names whose natural order differs from their lexicographic order, non-ASCII names."""
    if style == "nat" and all(n in _NAT for n in names):
        return {n: _NAT[n] for n in names}
    if style == "uni" and all(n in _UNI for n in names):
        return {n: _UNI[n] for n in names}
    if style == "dunder":
        return {n: "__" + n + "__" for n in names}
    return {n: "_" + n for n in names}


def rename_case(case, style):
    """The same case with every declared variable renamed (expressions, element names in bound /
    domain edits, compile orders, evaluation points, read routes follow)."""
    import copy

    case = copy.deepcopy(case)
    names = set()
    for op in case["ops"]:
        inner = op[2] if op[0] == "with_reclimit" else op
        if inner[0] in ("new_model", "redeclare"):
            for d in inner[2]["vars"]:
                names.add(d["name"])
    mp = _name_map(sorted(names), style)

    def el(s):
        # "v[0]" / "A[0,1]" / "x"
        base, br, rest = s.partition("[")
        return mp.get(base, base) + br + rest

    def vec(v):
        t = v[0]
        if t in ("vec", "vslice", "vrev", "vstride", "mrow", "mcol", "mdiag", "mTrow", "mrowslice", "msubrow"):
            v[1] = mp.get(v[1], v[1])
        elif t == "vexpr":
            for e in v[1]:
                expr(e)
        elif t in ("vscale", "vshift", "vpow"):
            vec(v[1])
        elif t in ("matvec", "vfn", "vrsub", "vrdiv"):
            vec(v[2])
        elif t == "mvprod":
            v[1] = mp.get(v[1], v[1])
            vec(v[2])
        elif t in ("mT", "msub", "mat"):
            v[1] = mp.get(v[1], v[1])
        elif t == "elem":
            v[1] = el(v[1])

    def expr(e):
        t = e[0]
        if t in ("var", "vel", "mel", "msum", "trace", "frob"):
            e[1] = mp.get(e[1], e[1])
        elif t in S.BINOPS:
            expr(e[1])
            expr(e[2])
        elif t == "neg":
            expr(e[1])
        elif t == "fn":
            expr(e[2])
        elif t in ("vsum", "norm", "quad", "qform"):
            vec(e[1])
        elif t == "lincomb":
            vec(e[2])
        elif t == "dot":
            vec(e[1])
            vec(e[2])
        elif t == "bilin":
            vec(e[1])
            vec(e[3])
        elif t == "chain":
            for s in e[2]:
                expr(s)

    def spec(sp):
        for d in sp["vars"]:
            d["name"] = mp.get(d["name"], d["name"])
        for e in sp["exprs"].values():
            expr(e)
        for c in sp["cons"].values():
            if c["k"] == "s":
                expr(c["lhs"])
                expr(c["rhs"])
            elif c["k"] == "m":
                c["lhs"][1] = mp.get(c["lhs"][1], c["lhs"][1])
            else:
                vec(c["lhs"])

    def one(op):
        k = op[0]
        if k == "with_reclimit":
            one(op[2])
        elif k in ("new_model", "redeclare"):
            spec(op[2])
        elif k in ("set_lb", "set_ub", "set_domain"):
            op[2] = el(op[2])
        elif k == "compile":
            a = op[4]
            a["order"] = [el(n) for n in a["order"]]
            if "wrt" in a:
                a["wrt"] = el(a["wrt"])
        elif k in ("call", "evaluate"):
            op[3] = {el(n): v for n, v in op[3].items()}
        elif k == "read_elems":
            vec(op[2])

    for op in case["ops"]:
        one(op)
    return case


def numpyfy_case(case, r, p=0.35):
    """The same case with some number literals arriving as NumPy scalars (np.float64: what indexing
    an array gives) instead of Python floats -- in particular on the LEFT of an operator, where
    NumPy gets the first say."""
    import copy

    case = copy.deepcopy(case)

    def expr(e):
        if not isinstance(e, list) or not e:
            return
        if e[0] == "num" and isinstance(e[1], float) and r.random() < p:
            e[0] = "npnum"
            return
        for x in e[1:]:
            if isinstance(x, list):
                if x and isinstance(x[0], str):
                    expr(x)
                else:
                    for y in x:
                        if isinstance(y, list) and y and isinstance(y[0], str):
                            expr(y)

    for op in case["ops"]:
        inner = op[2] if op[0] == "with_reclimit" else op
        if inner[0] in ("new_model", "redeclare"):
            sp = inner[2]
            for e in sp["exprs"].values():
                expr(e)
            for c in sp["cons"].values():
                if c["k"] == "s":
                    expr(c["lhs"])
                    expr(c["rhs"])
    return case
