"""Seeded generators: model pools (specs) and explicit op lists per machine.

Every generator takes a `random.Random` and returns plain JSON data.  The PRNG
is never consulted after generation.
"""

from __future__ import annotations

import random

from . import spec as S

LP_METHODS = ["linprog", "highs", "highs-ds", "highs-ipm"]
NLP_CORE = ["SLSQP", "trust-constr", "L-BFGS-B"]
NLP_MORE = ["TNC", "BFGS", "CG", "Newton-CG", "COBYLA", "Nelder-Mead", "Powell"]
ALL_METHODS = ["auto"] + LP_METHODS + NLP_CORE + NLP_MORE

COEFS = [-3.0, -2.0, -1.0, -0.5, 0.5, 1.0, 1.5, 2.0, 3.0, 4.0]
POS = [0.5, 1.0, 1.5, 2.0, 3.0]
TARGETS = [-2.0, -1.0, 0.0, 0.5, 1.0, 2.0, 3.0, 5.0]
PGRID = [-3.0, -1.5, -0.5, 0.5, 1.0, 2.0, 3.5, 5.0]


def splitmix64(x):
    x = (x + 0x9E3779B97F4A7C15) & 0xFFFFFFFFFFFFFFFF
    z = x
    z = ((z ^ (z >> 30)) * 0xBF58476D1CE4E5B9) & 0xFFFFFFFFFFFFFFFF
    z = ((z ^ (z >> 27)) * 0x94D049BB133111EB) & 0xFFFFFFFFFFFFFFFF
    return z ^ (z >> 31)


def run_seed(root, prop, i):
    h = root & 0xFFFFFFFFFFFFFFFF
    for ch in prop.encode():
        h = splitmix64(h ^ ch)
    return splitmix64(h ^ (i & 0xFFFFFFFFFFFFFFFF))


def ref_of(spec, name):
    """Element name -> EXPR leaf."""
    for d in spec["vars"]:
        if d["kind"] == "scalar" and d["name"] == name:
            return ["var", name]
        if d["kind"] == "vector" and name.startswith(d["name"] + "["):
            return ["vel", d["name"], int(name[len(d["name"]) + 1 : -1])]
        if d["kind"] == "matrix" and name.startswith(d["name"] + "["):
            i, j = name[len(d["name"]) + 1 : -1].split(",")
            return ["mel", d["name"], int(i), int(j)]
    raise KeyError(name)


# --------------------------------------------------------------------------
# variables
# --------------------------------------------------------------------------


def gen_bounds(r, finite=0.85, positive=False):
    if positive:
        lb = r.choice([0.1, 0.5, 1.0])
        ub = lb + r.choice([1.0, 2.0, 4.0, 9.0])
        return lb, ub
    if r.random() < finite:
        lb = r.choice([-5.0, -2.0, -1.0, 0.0, 0.0, 0.5])
        ub = lb + r.choice([1.0, 2.0, 3.5, 6.0, 10.0])
        return lb, ub
    k = r.random()
    if k < 0.4:
        return r.choice([0.0, -1.0, 0.5]), None
    if k < 0.7:
        return None, r.choice([1.0, 4.0, 10.0])
    return None, None


def gen_vars(r, layout=None, int_frac=0.0, positive=False):
    layout = layout or r.choice(["A", "A", "B", "B", "C", "D", "E"])
    vs = []

    def dom():
        if r.random() < int_frac:
            return r.choice(["integer", "binary", "integer"])
        return "continuous"

    def decl(kind, name, **kw):
        lb, ub = gen_bounds(r, positive=positive)
        d = {"kind": kind, "name": name, "lb": lb, "ub": ub, "domain": dom()}
        d.update(kw)
        if d["domain"] == "binary":
            d["lb"], d["ub"] = None, None
        vs.append(d)

    if layout == "A":
        for n in ["x", "y", "z"][: r.choice([2, 3, 3])]:
            decl("scalar", n)
    elif layout == "B":
        decl("vector", "v", n=r.choice([2, 3, 4]))
        decl("scalar", "x")
    elif layout == "C":
        n = r.choice([2, 3])
        decl("vector", "v", n=n)
        decl("vector", "u", n=n)
    elif layout == "D":
        decl("matrix", "A", rows=2, cols=2, symmetric=r.random() < 0.4)
        decl("scalar", "x")
    else:
        decl("vector", "v", n=r.choice([3, 4]))
        decl("scalar", "x")
        decl("scalar", "y")
    # a spare variable that only some constraints mention
    decl("scalar", "w")
    return vs


def vec_handles(spec_vars):
    """VEC forms available for the declared variables: (VEC, element names)."""
    out = []
    tmp = {"vars": spec_vars}
    for d in spec_vars:
        if d["kind"] == "vector":
            out.append(["vec", d["name"]])
            if d["n"] >= 3:
                out.append(["vslice", d["name"], 0, 2])
                out.append(["vslice", d["name"], 1, d["n"]])
        elif d["kind"] == "matrix":
            out.append(["mrow", d["name"], 0])
            out.append(["mcol", d["name"], 1])
            out.append(["mdiag", d["name"]])
    return [(v, S.vec_names(tmp, v)) for v in out]


# --------------------------------------------------------------------------
# expressions
# --------------------------------------------------------------------------


def lin_terms(r, names, kmin=1, kmax=4):
    k = min(len(names), r.randint(kmin, kmax))
    pick = r.sample(names, k)
    return [(r.choice(COEFS), n) for n in pick]


def render_linear(r, sp, terms, const=0.0, deep=0):
    """Σ c·e + const in a seeded syntactic form."""
    vhs = vec_handles(sp["vars"])
    tnames = [n for _, n in terms]
    parts = []
    used = set()
    # try to express a block through a vector handle
    r.shuffle(vhs)
    for vec, names in vhs:
        if all(n in tnames for n in names) and not (set(names) & used) and r.random() < 0.7:
            cs = [next(c for c, n in terms if n == nm) for nm in names]
            if all(c == 1.0 for c in cs) or r.random() < 0.25:
                if all(c == 1.0 for c in cs):
                    parts.append(["vsum", vec])
                else:
                    parts.append(["lincomb", cs, vec])
            else:
                parts.append(["lincomb", cs, vec])
            used |= set(names)
    for c, n in terms:
        if n in used:
            continue
        leaf = ref_of(sp, n)
        k = r.random()
        if c == 1.0 and k < 0.5:
            parts.append(leaf)
        elif c == -1.0 and k < 0.3:
            parts.append(["neg", leaf])
        elif k < 0.75:
            parts.append(["*", ["num", c], leaf])
        elif k < 0.9:
            parts.append(["*", leaf, ["num", c]])
        else:
            parts.append(["*", ["const", c], leaf])
    if const != 0.0 or r.random() < 0.1:
        parts.insert(r.randint(0, len(parts)), ["num", const])
    if parts[0][0] == "num" and len(parts) > 1:
        parts[0], parts[1] = parts[1], parts[0]
    for _ in range(deep):
        parts.append(["num", 0.0])
    if len(parts) == 1:
        return parts[0] if parts[0][0] != "num" else ["const", parts[0][1]]
    if r.random() < 0.5 or deep:
        return ["chain", "+", parts]
    acc = parts[0]
    for p in parts[1:]:
        if r.random() < 0.8:
            acc = ["+", acc, p]
        else:
            acc = ["+", p, acc]
    return acc


def gen_quadratic(r, sp, names, params=None):
    """Strictly convex separable quadratic (+ optional small cross term)."""
    k = min(len(names), r.randint(1, 4))
    pick = r.sample(names, k)
    parts = []
    for n in pick:
        w = r.choice(POS)
        t = r.choice(TARGETS)
        leaf = ref_of(sp, n)
        tt = ["num", t]
        if params and r.random() < 0.5:
            tt = r.choice(params)
        sq = ["**", ["-", leaf, tt], ["num", 2]]
        parts.append(sq if w == 1.0 else ["*", ["num", w], sq])
    if len(pick) >= 2 and r.random() < 0.3:
        parts.append(["*", ["*", ["num", 0.25], ref_of(sp, pick[0])], ref_of(sp, pick[1])])
    if r.random() < 0.4:
        parts.append(["num", r.choice([-4.0, 1.0, 2.5, 7.0])])
    return parts[0] if len(parts) == 1 else ["chain", "+", parts]


def gen_vecquad(r, sp):
    vhs = vec_handles(sp["vars"])
    if not vhs:
        return None
    vec, names = r.choice(vhs)
    n = len(names)
    k = r.random()
    if k < 0.4:
        e = ["dot", vec, vec]
    elif k < 0.8:
        Q = [[0.0] * n for _ in range(n)]
        for i in range(n):
            Q[i][i] = r.choice([1.0, 2.0, 3.0])
        if n >= 2 and r.random() < 0.5:
            Q[0][1] = Q[1][0] = 0.5
        e = ["quad", vec, Q]
    else:
        e = ["dot", ["vshift", vec, -r.choice([0.5, 1.0, 2.0])], ["vshift", vec, -1.0]]
    lin = render_linear(r, sp, lin_terms(r, names, 1, 2), r.choice([0.0, 0.0, 3.0]))
    return ["+", e, lin] if r.random() < 0.7 else ["-", e, lin]


def gen_nonlinear(r, sp, names, positive_names, params=None):
    base = gen_quadratic(r, sp, names, params)
    n = r.choice(names)
    leaf = ref_of(sp, n)
    k = r.random()
    if k < 0.25:
        extra = ["fn", "exp", ["*", ["num", 0.5], leaf]]
    elif k < 0.45:
        extra = ["**", leaf, ["num", 4]]
    elif k < 0.6 and positive_names:
        extra = ["neg", ["fn", "log", ref_of(sp, r.choice(positive_names))]]
    elif k < 0.7 and positive_names:
        extra = ["neg", ["fn", "sqrt", ref_of(sp, r.choice(positive_names))]]
    elif k < 0.85:
        extra = ["fn", "cosh", leaf]
    else:
        m = r.choice(names)
        extra = ["*", ["*", leaf, ref_of(sp, m)], ["num", 0.1]]
    return ["+", base, extra]


def positive_elems(sp):
    out = []
    for d in sp["vars"]:
        if d.get("lb") is not None and d["lb"] > 0 and d.get("domain", "continuous") == "continuous":
            out.extend(S.element_names(d))
    return out


# --------------------------------------------------------------------------
# constraints
# --------------------------------------------------------------------------


def gen_lin_con(r, sp, names, sense=None):
    terms = lin_terms(r, names, 1, 3)
    rhs = r.choice([-2.0, 0.0, 0.5, 1.0, 2.0, 3.0, 6.0])
    lhs = render_linear(r, sp, terms, 0.0 if r.random() < 0.8 else r.choice([1.0, -1.0]))
    sense = sense or r.choice(["<=", ">=", "<=", ">=", "=="])
    if r.random() < 0.15 and len(names) >= 2:
        # rhs is an expression too
        rr = render_linear(r, sp, lin_terms(r, names, 1, 1), rhs)
        return {"k": "s", "lhs": lhs, "sense": sense, "rhs": rr}
    return {"k": "s", "lhs": lhs, "sense": sense, "rhs": ["num", rhs]}


def gen_vec_con(r, sp):
    vhs = vec_handles(sp["vars"])
    if not vhs:
        return None
    vec, _ = r.choice(vhs)
    sense = r.choice(["<=", ">="])
    return {"k": "v", "lhs": vec, "sense": sense, "rhs": r.choice([0.0, 0.25, 0.5]) if sense == ">=" else r.choice([2.0, 3.0, 8.0])}


def gen_nl_con(r, sp, names):
    k = r.random()
    a = ref_of(sp, r.choice(names))
    b = ref_of(sp, r.choice(names))
    if k < 0.4:
        e = ["+", ["**", a, ["num", 2]], ["**", b, ["num", 2]]]
        return {"k": "s", "lhs": e, "sense": "<=", "rhs": ["num", r.choice([1.0, 4.0, 9.0, 25.0])]}
    if k < 0.7:
        return {"k": "s", "lhs": ["*", a, b], "sense": r.choice(["<=", ">="]), "rhs": ["num", r.choice([0.5, 1.0, 2.0])]}
    if k < 0.85:
        return {"k": "s", "lhs": ["fn", "exp", ["*", ["num", 0.5], a]], "sense": "<=", "rhs": ["num", r.choice([2.0, 5.0])]}
    return {"k": "s", "lhs": ["+", ["**", a, ["num", 2]], b], "sense": "==", "rhs": ["num", r.choice([1.0, 2.0])]}


# --------------------------------------------------------------------------
# pools
# --------------------------------------------------------------------------


def gen_pool(r, kinds=("lin", "quad", "nl"), layout=None, int_frac=0.0, nobj=5, ncon=7, params=0,
             positive=False, deep=0, name="m"):
    """A model pool: variables, parameters, objective exprs o*, constraints c*."""
    sp = {"name": name, "vars": gen_vars(r, layout, int_frac, positive), "params": [], "exprs": {}, "cons": {}}
    pleaves = []
    for i in range(params):
        if r.random() < 0.7 or i == 0:
            sp["params"].append({"kind": "scalar", "name": f"p{i}", "value": r.choice(PGRID)})
            pleaves.append(["param", f"p{i}"])
        else:
            n = r.choice([2, 3])
            sp["params"].append({"kind": "vector", "name": f"q{i}", "n": n, "values": [r.choice(PGRID) for _ in range(n)]})
            pleaves.extend(["pel", f"q{i}", j] for j in range(n))
    names_all = S.all_element_names(sp)
    core = [n for n in names_all if n != "w"]
    pos = positive_elems(sp)
    okinds = {}
    for i in range(nobj):
        kind = kinds[i % len(kinds)] if i < len(kinds) else r.choice(kinds)
        if kind == "lin":
            e = render_linear(r, sp, lin_terms(r, core, 1, 4), r.choice([0.0, 0.0, 5.0, -2.5]), deep=deep if r.random() < 0.5 else 0)
        elif kind == "quad":
            e = gen_vecquad(r, sp) if r.random() < 0.35 else None
            if e is None:
                e = gen_quadratic(r, sp, core, pleaves or None)
        else:
            e = gen_nonlinear(r, sp, core, [p for p in pos if p != "w"], pleaves or None)
        sp["exprs"][f"o{i}"] = e
        okinds[f"o{i}"] = kind
    ckinds = {}
    for i in range(ncon):
        k = r.random()
        c = None
        kind = "lin"
        if "nl" in kinds and k < 0.2:
            c = gen_nl_con(r, sp, core)
            kind = "nl"
        elif k < 0.35:
            c = gen_vec_con(r, sp)
            kind = "vec"
        elif k < 0.5:
            c = gen_lin_con(r, sp, core + ["w"])
            if "w" in S.con_mentioned(sp, c):
                kind = "newvar"
        if c is None:
            c = gen_lin_con(r, sp, core)
            kind = "lin"
        sp["cons"][f"c{i}"] = c
        ckinds[f"c{i}"] = kind
    sp["expr_order"] = sorted(sp["exprs"])
    sp["con_order"] = sorted(sp["cons"])
    meta = {"okinds": okinds, "ckinds": ckinds}
    return sp, meta


def gen_knobs(r, p_default=0.5):
    from .world import DEFAULT_KNOBS

    k = dict(DEFAULT_KNOBS)
    if r.random() < p_default:
        return k
    for key in ("thr_autodiff", "thr_compiler", "thr_analysis", "thr_expressions"):
        k[key] = r.choice([400, 400, 2, 3, 6, 25])
    k["lru_compile"] = r.choice([1024, 4, 16, 64])
    k["lru_gradient"] = r.choice([4096, 4, 16, 64])
    k["lru_degree"] = r.choice([1024, 4, 16, 64])
    return k


def gen_point(r, sp, names=None, positive=False):
    names = names if names is not None else S.all_element_names(sp)
    attrs = S.elem_attrs(S.new_shadow(sp))
    pt = {}
    for n in names:
        lb, ub, _ = attrs[n]
        lo = lb if lb is not None else -3.0
        hi = ub if ub is not None else lo + 6.0
        if lb is None and ub is not None:
            lo = ub - 6.0
        x = lo + (hi - lo) * r.choice([0.125, 0.25, 0.375, 0.5, 0.625, 0.75, 0.875])
        pt[n] = float(x)
    return pt


# --------------------------------------------------------------------------
# C13 history machine (also carries C18's history facet)
# --------------------------------------------------------------------------

C13_METHODS = ["auto", "auto", "linprog", "highs-ds", "highs-ipm", "SLSQP", "trust-constr", "L-BFGS-B"]


def gen_c13(r, int_frac=0.0, strict_frac=0.0, maxlen=None):
    sp, meta = gen_pool(r, kinds=("lin", "quad", "nl", "lin"), int_frac=int_frac, nobj=6, ncon=8)
    knobs = gen_knobs(r, 0.6)
    ops = [["new_model", 0, sp]]
    onames = sorted(sp["exprs"])
    cnames = sorted(sp["cons"])
    elems = S.all_element_names(sp)
    lin_objs = [o for o in onames if meta["okinds"][o] == "lin"]
    lin_cons = [c for c in cnames if meta["ckinds"][c] in ("lin", "vec", "newvar")]
    n = r.randint(3, maxlen or 22)
    have_obj = False
    bias_lp = r.random() < 0.5  # many runs stay on LP-capable states for a while
    attrs = S.elem_attrs(S.new_shadow(sp))
    for step in range(n):
        k = r.random()
        if not have_obj and k < 0.9:
            k = 0.0
        if k < 0.16:
            o = r.choice(lin_objs) if (bias_lp and r.random() < 0.7 and lin_objs) else r.choice(onames)
            ops.append([r.choice(["minimize", "minimize", "maximize"]), 0, o])
            have_obj = True
        elif k < 0.30:
            c = r.choice(lin_cons) if (bias_lp and r.random() < 0.7 and lin_cons) else r.choice(cnames)
            ops.append(["subject_to", 0, c])
        elif k < 0.34:
            cs = r.sample(cnames, r.choice([1, 2, 3]))
            ops.append(["subject_to_list", 0, cs])
        elif k < 0.46:
            e = r.choice(elems)
            lb, ub, dom = attrs[e]
            if dom == "binary" and r.random() < 0.7:
                continue
            if r.random() < 0.5:
                base = ub if ub is not None else 5.0
                nb = base - r.choice([0.25, 0.5, 1.0, 1.5, 2.5])
                if r.random() < 0.15:
                    nb = None
                ops.append(["set_lb", 0, e, nb])
                attrs[e][0] = nb
            else:
                base = lb if lb is not None else -5.0
                nb = base + r.choice([0.25, 0.5, 1.0, 1.5, 2.5])
                if r.random() < 0.15:
                    nb = None
                ops.append(["set_ub", 0, e, nb])
                attrs[e][1] = nb
        elif k < 0.50 and int_frac > 0:
            e = r.choice(elems)
            if attrs[e][2] != "binary":
                nd = r.choice(["integer", "continuous"])
                ops.append(["set_domain", 0, e, nd])
                attrs[e][2] = nd
        elif k < 0.58:
            ops.append([r.choice(["read_variables", "read_n", "read_bounds", "repr", "summary", "read_variables"]), 0])
        else:
            a = {"method": r.choice(C13_METHODS)}
            if r.random() < strict_frac:
                a["strict"] = True
            if r.random() < 0.1:
                a["use_hessian"] = False
            if r.random() < 0.1:
                a["maxiter"] = r.choice([1, 2, 5, 50])
            if r.random() < 0.08:
                a["tol"] = r.choice([1e-4, 1e-8])
            ops.append(["solve", 0, a])
    if ops[-1][0] != "solve":
        ops.append(["solve", 0, {"method": r.choice(C13_METHODS)}])
    return {"knobs": knobs, "ops": ops}
