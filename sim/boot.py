"""Bring the current process to the *pristine* state: optyx, NumPy and SciPy
imported (from the tree under test), SciPy's lazy machinery warmed up, and not a
single optyx expression ever built."""

from __future__ import annotations

import os
import sys

_DONE = False


def optyx_src():
    return os.environ.get("OPTYX_SRC", "/repo/src")


def boot():
    global _DONE
    if _DONE:
        return
    for k in ("OMP_NUM_THREADS", "OPENBLAS_NUM_THREADS", "MKL_NUM_THREADS"):
        os.environ[k] = "1"
    src = optyx_src()
    if src not in sys.path:
        sys.path.insert(0, src)
    import numpy as np
    import scipy.optimize as so

    import optyx  # noqa: F401
    import optyx.analysis  # noqa: F401
    import optyx.solvers.lp_solver  # noqa: F401
    import optyx.solvers.scipy_solver  # noqa: F401
    import optyx.core.autodiff  # noqa: F401
    import optyx.core.compiler  # noqa: F401
    import optyx.core.matrices  # noqa: F401

    got = os.path.realpath(os.path.dirname(os.path.dirname(optyx.__file__)))
    if got != os.path.realpath(src):
        raise RuntimeError(f"optyx imported from {got}, expected {src}")

    # warm up SciPy only (no optyx object is created here)
    import warnings

    with warnings.catch_warnings():
        warnings.simplefilter("ignore")
        so.linprog([1.0, 1.0], A_ub=[[-1.0, -1.0]], b_ub=[-1.0], bounds=[(0, None)] * 2, method="highs")
        so.linprog([1.0], A_eq=[[1.0]], b_eq=[1.0], bounds=[(0, None)], method="highs-ds")
        so.linprog([1.0], bounds=[(0, 1)], method="highs-ipm")
        f = lambda x: float((x[0] - 1) ** 2 + (x[1] - 2) ** 2)  # noqa: E731
        g = lambda x: np.array([2 * (x[0] - 1), 2 * (x[1] - 2)])  # noqa: E731
        h = lambda x: np.array([[2.0, 0.0], [0.0, 2.0]])  # noqa: E731
        con = [{"type": "ineq", "fun": lambda x: x[0] + x[1] - 1, "jac": lambda x: np.array([1.0, 1.0])}]
        for m in ("SLSQP", "trust-constr", "COBYLA"):
            so.minimize(f, [0.0, 0.0], jac=None if m == "COBYLA" else g, method=m, constraints=con,
                        hess=h if m == "trust-constr" else None)
        for m in ("L-BFGS-B", "TNC", "BFGS", "CG", "Newton-CG", "Nelder-Mead", "Powell"):
            so.minimize(f, [0.0, 0.0], jac=g if m not in ("Nelder-Mead", "Powell") else None, method=m,
                        hess=h if m == "Newton-CG" else None)
    # HiGHS starts a global pool of worker threads at its first run.  Threads do not survive fork():
    # a child that inherits the "pool exists" state deadlocks as soon as HiGHS needs a worker (MIP
    # solves -- integrality= passed through to linprog -- do).  Shut the pool down here, so that
    # this process is single-threaded again and every child starts its own pool on demand.
    try:
        from scipy.optimize._highspy._core import _Highs

        _Highs.resetGlobalScheduler(True)
    except Exception:  # noqa: BLE001 - other SciPy layouts: the generators avoid MIP keywords anyway
        pass
    try:
        from packaging import version  # noqa: F401  (imported lazily by lp_solver)
    except Exception:  # noqa: BLE001
        pass
    _DONE = True
