"""A constant pristine process that every execution is forked from.

The zygote is started by exec with a fixed argv and a minimal fixed environment,
boots (imports optyx / NumPy / SciPy from the tree under test, warms SciPy up,
never builds an expression) and then only forks: it does not even read the
requests -- the forked child does.  So the state a case starts from (module
state, LRU caches, warnings registry, recursion limit AND the allocator's free
lists, hence which object addresses get recycled) is a function of the code
under test alone, identical for the original run, for every shrink candidate and
for a replay in a brand-new interpreter.  That is what makes behaviour that
depends on id() reuse (caches keyed by address) replayable.

Protocol (fds REQ_FD / RES_FD): owner writes b"R" + frame(request); the zygote
reads the single byte, forks; the child reads the frame, runs, writes
frame(result) and _exits.  frame = 8-byte little-endian length + pickle.
"""

from __future__ import annotations

import os
import pickle
import select
import signal
import struct
import subprocess
import sys
import time
import traceback

REQ_FD = 100
RES_FD = 101
VERIF = os.path.dirname(os.path.dirname(os.path.abspath(__file__)))


def _read_exact(fd, n):
    chunks = []
    while n:
        b = os.read(fd, min(n, 1 << 20))
        if not b:
            raise EOFError
        chunks.append(b)
        n -= len(b)
    return b"".join(chunks)


def _write_frame(fd, obj):
    data = pickle.dumps(obj, protocol=pickle.HIGHEST_PROTOCOL)
    data = struct.pack("<Q", len(data)) + data
    view = memoryview(data)
    while view:
        n = os.write(fd, view)
        view = view[n:]


def _read_frame(fd):
    (n,) = struct.unpack("<Q", _read_exact(fd, 8))
    return pickle.loads(_read_exact(fd, n))


def _read_frame_deterministically(fd):
    """Like _read_frame, but the allocations it makes do not depend on how the pipe happened to
    chop the data up (one preallocated buffer, filled in place): the reader's heap afterwards is a
    function of the frame's content only."""
    head = bytearray(8)
    _fill(fd, head)
    (n,) = struct.unpack("<Q", head)
    buf = bytearray(n)
    _fill(fd, buf)
    return pickle.loads(buf)


def _fill(fd, buf):
    view = memoryview(buf)
    got = 0
    n = len(buf)
    while got < n:
        k = os.readv(fd, [view[got:]])
        if k == 0:
            raise EOFError
        got += k


# ------------------------------------------------------------------ server side


def main():
    sys.path.insert(0, VERIF)
    from sim.boot import boot

    boot()
    import gc

    # a few idle fork cycles first: whatever the first forks release or allocate in this process
    # (interpreter-internal at-fork work) has happened before the state is declared constant
    for _i in range(3):
        pid = os.fork()
        if pid == 0:
            os._exit(0)
        _, status = os.waitpid(pid, 0)  # same names as the serving loop below: same live objects
    gc.collect()
    gc.freeze()  # the zygote's own objects never move through the collector again
    os.write(RES_FD, b"K")
    while True:
        try:
            b = os.read(REQ_FD, 1)
        except InterruptedError:
            continue
        if not b:
            os._exit(0)
        pid = os.fork()
        if pid == 0:
            code = 0
            try:
                try:
                    import json

                    # the request is canonical JSON text, parsed here: the child's allocation history
                    # (hence which addresses get recycled later) is a function of the request's
                    # *content*, not of how the caller happened to hold it in memory
                    req = json.loads(_read_frame_deterministically(REQ_FD))
                    from sim.executor import run_ops

                    out = ("ok", run_ops(*req))
                except BaseException:  # noqa: BLE001
                    out = ("error", traceback.format_exc())
                _write_frame(RES_FD, out)
            except BaseException:  # noqa: BLE001
                code = 3
            finally:
                os._exit(code)
        _, status = os.waitpid(pid, 0)
        if status != 0:
            _write_frame(RES_FD, ("crash", status))


# ------------------------------------------------------------------ client side


def _no_aslr():
    """Runs in the child between fork and exec: switch address-space randomisation off for the
    zygote image.  With ASLR the arenas of CPython's small-object allocator start at random page
    offsets (an arena whose base is not pool-aligned loses a pool), so *which addresses get
    recycled* differed from one zygote to the next: a violation that depends on id() reuse found
    under one zygote did not reproduce under the replay's zygote."""
    try:
        import ctypes

        ctypes.CDLL(None, use_errno=True).personality(0x0040000)  # ADDR_NO_RANDOMIZE
    except Exception:  # noqa: BLE001 - best effort; correct code does not depend on it
        pass


class Zygote:
    def __init__(self):
        self.proc = None
        self.owner = None
        self.req_w = None
        self.res_r = None

    def _start(self):
        from .boot import optyx_src

        req_r, req_w = os.pipe()
        res_r, res_w = os.pipe()
        env = {
            "PATH": "/usr/bin:/bin",
            "PYTHONHASHSEED": os.environ.get("PYTHONHASHSEED", "0"),
            "OPTYX_SRC": optyx_src(),
            "OMP_NUM_THREADS": "1",
            "OPENBLAS_NUM_THREADS": "1",
            "MKL_NUM_THREADS": "1",
            "PYTHONDONTWRITEBYTECODE": "1",
            "HOME": "/root",
        }

        os.dup2(req_r, REQ_FD, inheritable=True)
        os.dup2(res_w, RES_FD, inheritable=True)
        self.proc = subprocess.Popen(
            [sys.executable, "-c", f"import sys; sys.path.insert(0, {VERIF!r}); from sim.zygote import main; main()"],
            env=env,
            cwd="/",
            stdin=subprocess.DEVNULL,
            stdout=subprocess.DEVNULL,
            stderr=None,
            pass_fds=(REQ_FD, RES_FD),
            start_new_session=True,
            preexec_fn=_no_aslr,
        )
        for fd in (req_r, res_w, REQ_FD, RES_FD):
            os.close(fd)
        self.req_w, self.res_r = req_w, res_r
        self.owner = os.getpid()
        if not self._wait_readable(120.0) or os.read(self.res_r, 1) != b"K":
            err = "zygote failed to boot"
            self.kill()
            raise RuntimeError(err)

    def _wait_readable(self, timeout):
        deadline = time.monotonic() + timeout
        while True:
            left = deadline - time.monotonic()
            if left <= 0:
                return False
            rl, _, _ = select.select([self.res_r], [], [], min(left, 1.0))
            if rl:
                return True
            if self.proc.poll() is not None:
                return False

    def kill(self):
        if self.proc is not None:
            try:
                os.killpg(self.proc.pid, signal.SIGKILL)
            except (ProcessLookupError, PermissionError):
                pass
            try:
                self.proc.wait(timeout=10)
            except Exception:  # noqa: BLE001
                pass
        for fd in (self.req_w, self.res_r):
            if fd is not None:
                try:
                    os.close(fd)
                except OSError:
                    pass
        self.proc = None
        self.req_w = self.res_r = None

    def call(self, args, timeout):
        """-> ("ok", result) | ("error", tb) | ("timeout", None) | ("crash", status)"""
        if self.proc is None or self.owner != os.getpid() or self.proc.poll() is not None:
            if self.proc is not None and self.owner != os.getpid():
                # inherited through fork from another process: not ours to use or kill
                self.proc = None
                self.req_w = self.res_r = None
            self._start()
        import json

        data = pickle.dumps(json.dumps(list(args), sort_keys=True), protocol=pickle.HIGHEST_PROTOCOL)
        os.write(self.req_w, b"R")
        payload = struct.pack("<Q", len(data)) + data
        view = memoryview(payload)
        while view:
            n = os.write(self.req_w, view)
            view = view[n:]
        if not self._wait_readable(timeout):
            dead = self.proc.poll() is not None
            self.kill()
            return ("crash", "zygote died") if dead else ("timeout", None)
        try:
            return _read_frame(self.res_r)
        except EOFError:
            self.kill()
            return ("crash", "eof")


_Z = Zygote()


def call(args, timeout):
    return _Z.call(args, timeout)


def shutdown():
    if _Z.proc is not None and _Z.owner == os.getpid():
        _Z.kill()
