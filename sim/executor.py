"""Interprets explicit op lists against real optyx objects + the shadow state.

`run_ops(ops, knobs)` is a pure function of its arguments and the optyx code
under test (no PRNG, no wall clock): it is what a replay file replays.
It must be called in a process whose optyx state is pristine.
"""

from __future__ import annotations

import copy
import gc
import sys

from . import spec as S
from .world import World, fl, fl_list, scrub


class HarnessError(Exception):
    pass


OBS_OPS = {
    "read_elems",
    "solve",
    "read_variables",
    "read_n",
    "read_bounds",
    "repr",
    "summary",
    "evaluate",
    "call",
    "is_linear",
}


def _views(d, h):
    """(label, thunk building the view through the public API, expected element names)."""
    out = []
    if d["kind"] == "vector" and d["n"] >= 2:
        n = d["n"]
        nm = [f"{d['name']}[{i}]" for i in range(n)]
        out.append(("[0:2]", lambda: h[0:2], nm[0:2]))
        out.append(("[1:]", lambda: h[1:n], nm[1:n]))
        out.append(("[::2]", lambda: h[::2], nm[::2]))
        out.append(("[::-1]", lambda: h[::-1], nm[::-1]))
    elif d["kind"] == "matrix":
        R, C = d["rows"], d["cols"]
        nm = [[S.mel_name(d, i, j) for j in range(C)] for i in range(R)]
        out.append((".T", lambda: h.T, [[nm[i][j] for i in range(R)] for j in range(C)]))
        out.append((".T.T", lambda: h.T.T, nm))
        out.append(("[R-1,:]", lambda: h[R - 1, :], nm[R - 1]))
        out.append(("[:,C-1]", lambda: h[:, C - 1], [nm[i][C - 1] for i in range(R)]))
        out.append((".T[0,:]", lambda: h.T[0, :], [nm[i][0] for i in range(R)]))
        if R == C:
            out.append(("diag", lambda: h.diagonal(), [nm[i][i] for i in range(R)]))
        if C >= 2:
            out.append(("[0:R,1:C]", lambda: h[0:R, 1:C], [row[1:C] for row in nm]))
        if R >= 3 and C >= 3:
            # square blocks on and off the diagonal (only principal blocks of a symmetric matrix are symmetric)
            out.append(("[0:2,1:3]", lambda: h[0:2, 1:3], [row[1:3] for row in nm[0:2]]))
            out.append(("[1:3,0:2]", lambda: h[1:3, 0:2], [row[0:2] for row in nm[1:3]]))
            out.append(("[0:2,0:2]", lambda: h[0:2, 0:2], [row[0:2] for row in nm[0:2]]))
            out.append((".T[0:2,1:3]", lambda: h.T[0:2, 1:3], [[nm[i][j] for i in range(1, 3)] for j in range(0, 2)]))
            out.append(("[0:2,1:3].T", lambda: h[0:2, 1:3].T, [[nm[i][j] for i in range(0, 2)] for j in range(1, 3)]))
            out.append(("[0:2,1:3][1,:]", lambda: h[0:2, 1:3][1, :], nm[1][1:3]))
    return out


def _same(a, b):
    return a == b or (a != a and b != b)


def _point_array(order, point):
    import numpy as np

    return np.array([float(point[n]) for n in order], dtype=float)


def _typed(value, dtype):
    """The user's number(s) in the NumPy dtype they arrive in (None: plain Python numbers)."""
    if dtype is None:
        return value
    import numpy as np

    if isinstance(value, list):
        return np.array(value, dtype=dtype)
    return np.dtype(dtype).type(value)


def _solve_kwargs(a):
    import numpy as np

    kw = {}
    if a.get("x0") is not None:
        kw["x0"] = np.array(a["x0"], dtype=float)
    if a.get("tol") is not None:
        kw["tol"] = a["tol"]
    if a.get("maxiter") is not None:
        kw["maxiter"] = a["maxiter"]
    if a.get("use_hessian") is not None:
        kw["use_hessian"] = a["use_hessian"]
    for name, val in (a.get("kw") or {}).items():
        kw[name] = np.array(val) if isinstance(val, list) else val  # passed through to SciPy
    return kw


class Executor:
    def __init__(self, knobs=None, params_as_constants=False):
        self.world = World(knobs)
        self.world.install()
        self.models = {}
        self.shadows = {}
        self.pac = params_as_constants
        self.log = []
        self.site = 0
        self.shared_site = None
        self.cur_reclimit = None

    # ------------------------------------------------------------------ reference ops
    def ref_ops(self, mid, obs_op, relax=False, as_constants=False):
        """Op list that rebuilds the current logical state of model `mid` from
        scratch and performs `obs_op` on it (fault plan stripped)."""
        sh = self.shadows[mid]
        ops = [["new_model", 0, S.current_spec(sh, relax_domains=relax)]]
        if sh["objective"] is not None:
            ops.append(["minimize" if sh["sense"] == "min" else "maximize", 0, sh["objective"]])
        for c in sh["cons"]:
            ops.append(["subject_to", 0, c])
        o = copy.deepcopy(obs_op)
        o[1] = 0
        if o[0] == "solve":
            o[2] = {k: v for k, v in o[2].items() if k not in ("fault", "peer", "peers", "r2", "same_site")}
            if relax:
                o[2]["strict"] = False
        if o[0] == "call":
            h = sh["handles"][obs_op[2]]
            ops.append(["compile", 0, obs_op[2], h[0], h[1]])
        ops.append(o)
        return {"ops": ops, "pac": bool(as_constants)}

    # ------------------------------------------------------------------ main loop
    def run(self, ops):
        w = self.world
        for i, op in enumerate(ops):
            rec = {"i": i, "op": op[0]}
            inner = op
            reclimit = None
            if op[0] == "with_reclimit":
                reclimit = op[1]
                inner = op[2]
                rec["op"] = inner[0]
                rec["reclimit"] = reclimit
            plan = None
            if inner[0] == "solve":
                plan = {k: inner[2][k] for k in ("fault", "peer", "peers") if k in inner[2]} or None
            w.begin_op(plan)
            if plan:
                rec["planned"] = sorted(plan)
            self.cur_reclimit = reclimit
            try:
                if reclimit is not None:
                    from optyx.core.autodiff import increased_recursion_limit

                    with increased_recursion_limit(reclimit):
                        self._apply(inner, rec)
                        rec["reclimit_inside"] = sys.getrecursionlimit()
                else:
                    self._apply(inner, rec)
            except HarnessError:
                raise
            rec["events"] = w.events
            rec["warn"] = [list(x) for x in w.warnings]
            rec["fired"] = w.fired
            if w.cb_raised:
                rec["cb_raised"] = list(w.cb_raised)
            rec["mon"] = w.monitor()
            if not (rec["mon"]["showwarning_ok"] and rec["mon"]["reclimit_ok"] and rec["mon"]["filters_ok"]):
                # keep later ops judged on their own merits
                w.repair_globals()
            rec["clock"] = fl(w.clock)
            self.log.append(rec)
        return self.log

    # ------------------------------------------------------------------ ops
    def _apply(self, op, rec):
        k = op[0]
        if k == "new_model":
            mid, sp = op[1], op[2]
            self.models[mid] = S.build_model(sp, params_as_constants=self.pac)
            sh = S.new_shadow(sp)
            sh["handles"] = {}
            self.shadows[mid] = sh
            return
        if k == "alias_model":
            # a second Problem over the SAME variable / parameter / expression objects
            import optyx as ox

            new_mid, src = op[1], op[2]
            m0, sh0 = self.models[src], self.shadows[src]
            m1 = S.Model()
            m1.spec, m1.vars, m1.params, m1.elems, m1.exprs, m1.cons = m0.spec, m0.vars, m0.params, m0.elems, m0.exprs, m0.cons
            m1.views = m0.views
            m1.buffers = m0.buffers
            m1.problem = ox.Problem(m0.spec.get("name"))
            self.models[new_mid] = m1
            # bound / domain edits and parameter values are properties of the shared objects
            self.shadows[new_mid] = {"spec": sh0["spec"], "objective": None, "sense": "min", "cons": [],
                                     "ov": sh0["ov"], "pv": sh0["pv"], "handles": {}}
            return
        if k == "drop_model":
            self.models.pop(op[1], None)
            self.shadows.pop(op[1], None)
            gc.collect()
            return
        if k == "probe_heap":
            import gc as _gc

            rec["heap"] = {"gc_count": list(_gc.get_count()), "blocks": sys.getallocatedblocks(), "frozen": _gc.get_freeze_count()}
            return
        if k == "swap_hook":
            self.world.swap_hook()
            return
        if k == "flood":
            self._flood(op[1], op[2] if len(op) > 2 else "f", op[3] if len(op) > 3 else None)
            return
        if k == "gc":
            gc.collect()
            return
        mid = op[1]
        m = self.models[mid]
        sh = self.shadows[mid]
        P = m.problem
        if k in ("minimize", "maximize"):
            getattr(P, k)(m.exprs[op[2]])
            sh["objective"] = op[2]
            sh["sense"] = "min" if k == "minimize" else "max"
        elif k == "subject_to":
            P.subject_to(m.cons[op[2]])
            sh["cons"].append(op[2])
        elif k == "subject_to_list":
            lst = []
            for c in op[2]:
                o = m.cons[c]
                if isinstance(o, list):
                    lst.extend(o)
                else:
                    lst.append(o)
            P.subject_to(lst)
            sh["cons"].extend(op[2])
        elif k == "redeclare":
            # the user re-declares the model's variables / parameters under the SAME names (other
            # domains, bounds, values), rebuilds the expressions and installs a new objective in
            # the same Problem.  Only generated for problems without constraints, so that the
            # problem then mentions the new objects only.
            if sh["cons"]:
                raise HarnessError("redeclare on a problem with constraints")
            new = S.build_model(op[2], params_as_constants=self.pac)
            m.spec, m.vars, m.params, m.elems, m.exprs, m.cons = new.spec, new.vars, new.params, new.elems, new.exprs, new.cons
            m.views = new.views
            m.handles = {}
            getattr(P, op[3])(m.exprs[op[4]])
            fresh = S.new_shadow(op[2])
            sh.update(spec=op[2], objective=op[4], sense="min" if op[3] == "minimize" else "max", cons=[], ov=fresh["ov"], pv=fresh["pv"], handles={})
        elif k == "objective_bad":
            # minimize() / maximize() with an argument that must be rejected; afterwards the model is
            # whatever the problem itself reports (public .sense / .objective)
            try:
                getattr(P, op[2])("not an expression")
                rec["edit_exc"] = None
            except Exception as e:  # noqa: BLE001
                rec["edit_exc"] = type(e).__name__
            sh["sense"] = "min" if P.sense == "minimize" else "max"
            cur = P.objective
            if cur is None:
                sh["objective"] = None
            elif sh["objective"] is None or m.exprs.get(sh["objective"]) is not cur:
                found = [n for n, e in m.exprs.items() if e is cur]
                if not found:
                    raise HarnessError("objective_bad: the problem's objective is not a pool expression")
                sh["objective"] = found[0]
        elif k == "subject_to_bad":
            # a list with an invalid element at position op[3]: the call must raise; whatever part of
            # the list the problem then reports as added (public n_constraints) is part of the model
            lst = []
            flat = []
            for c in op[2]:
                o = m.cons[c]
                for item in (o if isinstance(o, list) else [o]):
                    lst.append(item)
                    flat.append(c)
            pos = min(op[3], len(lst))
            lst.insert(pos, "not a constraint")
            before = P.n_constraints
            try:
                P.subject_to(lst)
                rec["edit_exc"] = None
            except Exception as e:  # noqa: BLE001
                rec["edit_exc"] = type(e).__name__
            added = P.n_constraints - before
            rec["added"] = added
            # shadow: the pool constraints whose expansion was added completely (prefix)
            done, i = [], 0
            for c in op[2]:
                o = m.cons[c]
                w = len(o) if isinstance(o, list) else 1
                if i + w <= min(added, pos):
                    done.append(c)
                    i += w
                else:
                    break
            if i != added:
                raise HarnessError(f"subject_to_bad: {added} constraints were added, not expressible as a pool prefix ({i})")
            sh["cons"].extend(done)
        elif k == "buffer_write":
            # the user overwrites one of THEIR coefficient arrays in place (the next data window).
            # No optyx call is involved, and the models built from the array mean the numbers they
            # were built with: the shadow state does not change.
            import numpy as np

            if op[2] in m.buffers:
                m.buffers[op[2]][...] = np.array(op[3], dtype=float)
        elif k in ("set_lb", "set_ub", "set_domain"):
            attr = k[4:]
            setattr(m.elems[op[2]], attr, op[3])
            sh["ov"].setdefault(op[2], {})[attr] = op[3]
        elif k == "param_set":
            # optional 5th element: the NumPy dtype the user's number arrives in (np.float32(v), an
            # element of an int8 array, ...); the number itself is exactly representable in it
            p = m.params[op[2]]
            if not isinstance(p, tuple):
                if len(op) > 4 and op[4] == "alias":
                    # an array-valued Parameter: the user hands over a buffer and keeps using it for
                    # the next scenario (overwrites it in place) WITHOUT calling set() again
                    import numpy as np

                    buf = np.array(op[3], dtype=float)
                    p.set(buf)
                    buf *= 7.0
                    buf += 1.0
                else:
                    p.set(_typed(op[3], op[4] if len(op) > 4 else None))
            sh["pv"][op[2]] = op[3]
        elif k == "vparam_set":
            p = m.params[op[2]]
            if not isinstance(p, tuple):
                p.set(_typed(list(op[3]), op[4] if len(op) > 4 else None))
            sh["pv"][op[2]] = list(op[3])
        elif k == "pel_set":
            p = m.params[op[2]]
            if not isinstance(p, tuple):
                p[op[3]].set(_typed(op[4], op[5] if len(op) > 5 else None))
            sh["pv"][op[2]][op[3]] = op[4]
        elif k == "compile":
            hid, kind, args = op[2], op[3], op[4]
            try:
                m.handles[hid] = self._compile(m, kind, args)
            except Exception as e:  # noqa: BLE001 - observed at call time
                m.handles[hid] = ("exc", type(e).__name__)
            sh["handles"][hid] = [kind, args]
        elif k in OBS_OPS:
            self._observe(op, rec, m, sh)
        else:
            raise HarnessError(f"unknown op {k}")

    def _flood(self, n, tag, mode=None):
        """Push n throw-away expressions through the three process-wide caches.  mode "orders":
        every one of them over a variable list of its own (n distinct variable orderings)."""
        import optyx as ox
        from optyx.core.autodiff import gradient
        from optyx.core.compiler import compile_expression
        from optyx.analysis import compute_degree

        if mode == "orders":
            for i in range(n):
                v = ox.Variable(f"{tag}{i}")
                e = (v * 2.0) + 1.0
                compile_expression(e, [v])
                gradient(e, v)
                compute_degree(e)
            return
        x = ox.Variable(f"{tag}x")
        y = ox.Variable(f"{tag}y")
        for i in range(n):
            e = (x * float(i + 1)) + y
            compile_expression(e, [x, y])
            gradient(e, x)
            compute_degree(e)

    def _order(self, m, names):
        return [m.elems[n] for n in names]

    def _compile(self, m, kind, args):
        from optyx.core.autodiff import compile_hessian, compile_jacobian, gradient
        from optyx.core.compiler import (
            CompiledExpression,
            compile_expression,
            compile_gradient,
            compile_to_dict_function,
        )

        order = self._order(m, args["order"])
        if kind == "expr":
            return ("arr", compile_expression(m.exprs[args["e"]], order), args["order"])
        if kind == "grad":
            return ("arr", compile_gradient(m.exprs[args["e"]], order), args["order"])
        if kind == "jac":
            return ("arr", compile_jacobian([m.exprs[e] for e in args["es"]], order), args["order"])
        if kind == "hess":
            return ("arr", compile_hessian(m.exprs[args["e"]], order), args["order"])
        if kind == "cexpr":
            ce = CompiledExpression(m.exprs[args["e"]], order)
            return ("cexpr", ce, args["order"])
        if kind == "dictfn":
            return ("dict", compile_to_dict_function(m.exprs[args["e"]], order), args["order"])
        if kind == "symgrad":
            g = gradient(m.exprs[args["e"]], m.elems[args["wrt"]])
            return ("sym", g, args["order"])
        raise HarnessError(f"unknown handle kind {kind}")

    # ------------------------------------------------------------------ observations
    def _observe(self, op, rec, m, sh):
        import numpy as np

        k = op[0]
        P = m.problem
        w = self.world
        obs = None
        if k == "solve":
            if op[2].get("x0_prev"):
                # warm start at the previous solution of this problem: resolved to explicit numbers
                # here, so that the reference (which has no previous solve) starts from the same point
                prev = getattr(m, "last_values", None)
                names = sorted(S.problem_vars(sh), key=S.natural_key)
                a2 = {kk: vv for kk, vv in op[2].items() if kk != "x0_prev"}
                if prev is not None and names and all(n in prev and isinstance(prev[n], float) and prev[n] == prev[n] and abs(prev[n]) != float("inf") for n in names):
                    a2["x0"] = [prev[n] for n in names]
                    rec["warm_start"] = True
                op = [op[0], op[1], a2]
            obs = self._solve(op, rec, m, sh)
            if isinstance(obs, dict) and obs.get("values"):
                m.last_values = {n: v for n, v in obs["values"].items()}
        else:
            try:
                if k == "read_variables":
                    obs = {"names": [v.name for v in P.variables]}
                elif k == "read_n":
                    obs = {"n": P.n_variables, "nc": P.n_constraints}
                elif k == "read_bounds":
                    obs = {
                        "bounds": [[fl(a), fl(b)] for a, b in P.get_bounds()],
                        "names": [v.name for v in P.variables],
                    }
                elif k == "repr":
                    obs = {"text": repr(P)}
                elif k == "summary":
                    obs = {"text": P.summary()}
                elif k == "read_elems":
                    route = op[2]
                    if route[0] == "mT":
                        M = m.vars[route[1]].T
                        els = [M[i, j] for i in range(M.shape[0]) for j in range(M.shape[1])]
                    elif route[0] == "msub":
                        M = m.vars[route[1]][route[2] : route[3], route[4] : route[5]]
                        els = [M[i, j] for i in range(M.shape[0]) for j in range(M.shape[1])]
                    elif route[0] == "elem":
                        els = [m.elems[route[1]]]
                    else:
                        els = list(S.build_vec(m, route))
                    obs = {"elems": [[v.name, fl(v.lb), fl(v.ub), v.domain] for v in els]}
                elif k == "is_linear":
                    obs = {"lin": bool(P._is_linear_problem())}
                elif k == "evaluate":
                    v = m.exprs[op[2]].evaluate(dict(op[3]))
                    obs = {"val": fl_list(v)}
                elif k == "call":
                    h = m.handles[op[2]]
                    if h[0] == "exc":
                        obs = {"exc": h[1]}
                    else:
                        pt = op[3]
                        x = _point_array(h[2], pt)
                        with np.errstate(all="ignore"):
                            if h[0] == "arr":
                                obs = {"val": fl_list(h[1](x))}
                            elif h[0] == "cexpr":
                                v, g = h[1].value_and_gradient(x)
                                obs = {"val": [fl(v), fl_list(g)]}
                            elif h[0] == "dict":
                                obs = {"val": fl_list(h[1]({n: float(pt[n]) for n in h[2]}))}
                            elif h[0] == "sym":
                                obs = {"val": fl_list(h[1].evaluate({n: float(pt[n]) for n in h[2]}))}
            except Exception as e:  # noqa: BLE001 - the exception class is the observation
                obs = {"exc": type(e).__name__}
        rec["obs"] = obs
        rec["mid"] = op[1]
        rec["ref"] = self.ref_ops(op[1], op)
        if self.cur_reclimit is not None:
            # the reference makes the same observation inside the same user-level `with` block
            rec["ref"]["ops"][-1] = ["with_reclimit", self.cur_reclimit, rec["ref"]["ops"][-1]]
        if k in ("call", "evaluate") and sh["spec"].get("params"):
            hk, ha = (sh["handles"].get(op[2]) or [None, {}]) if k == "call" else (None, {})
            bad = k == "call" and ha.get("bad_order")
            if k == "call" and hk in ("grad", "jac", "hess", "symgrad"):
                # derivatives of an expression holding an ARRAY-valued Parameter: the constants twin
                # holds an array Constant, which the derivative simplifiers do not accept (they test
                # constants for == 0 / == 1); only values are compared with the constants model there
                arrp = {d["name"] for d in sh["spec"].get("params", []) if d["kind"] == "array"}
                es = ha.get("es") or [ha.get("e")]
                if arrp and any(S.params_in(sh["spec"]["exprs"][x]) & arrp for x in es if x):
                    bad = True
            if not bad:  # (a request that deliberately cannot be compiled has no constants twin to agree with)
                rec["ref2"] = self.ref_ops(op[1], op, as_constants=True)
        if k == "solve" and op[2].get("r2"):
            rec["ref2"] = self.ref_ops(op[1], op, as_constants=True)
            rec["r2_convex"] = op[2]["r2"] == "convex"
        # abstract cache state, for reach measurement only (never used by an oracle)
        rec["abs"] = [
            getattr(P, "_variables", None) is not None,
            getattr(P, "_solver_cache", None) is not None,
            bool(getattr(P, "_solver_cache", None) and "hess_fn" in P._solver_cache),
            getattr(P, "_lp_cache", None) is not None,
            getattr(P, "_is_linear_cache", None),
        ]

    def _solve(self, op, rec, m, sh):
        import numpy as np
        from optyx.solution import Solution

        a = op[2]
        w = self.world
        P = m.problem
        out = {}
        sol = None
        try:
            sol = self._call_from_fresh_site(P, dict(method=a.get("method", "auto"), strict=bool(a.get("strict", False)), **_solve_kwargs(a)), shared=bool(a.get("same_site")), kind=a.get("site", "plain"))
        except BaseException as e:  # noqa: BLE001 - includes injected KeyboardInterrupt
            if isinstance(e, (KeyboardInterrupt, SystemExit)) and not w.fired:
                raise
            out["exc"] = type(e).__name__
            names = getattr(e, "variable_names", None)
            if names is not None:
                out["exc_names"] = list(names)
        if sol is not None:
            if not isinstance(sol, Solution):
                out["exc"] = "NotASolution:" + type(sol).__name__
            else:
                out["status"] = sol.status.value
                out["obj"] = fl(sol.objective_value)
                out["values"] = {n: fl(v) for n, v in sol.values.items()}
                out["message"] = scrub(str(sol.message))
                out["iterations"] = None if sol.iterations is None else int(sol.iterations)
                out["solve_time"] = fl(sol.solve_time)
                if sol.values and not w.events:
                    raise HarnessError("seam-bypassed: a solve returned values but no solver entry was seen")
                rec["inline"] = self._inline(m, sh, sol, a)
        # strict-mode and relaxation references (C18)
        dom = S.elem_attrs(sh)
        noncont = sorted(n for n in S.problem_vars(sh) if dom[n][2] != "continuous")
        rec["noncont"] = noncont
        if noncont and not a.get("strict"):
            rec["ref_relaxed"] = self.ref_ops(op[1], op, relax=True)
        elif noncont and out.get("exc") and out["exc"] not in ("IntegerVariableError", "NonLinearError", "NoObjectiveError"):
            # strict mode raised something else: acceptable only if the model cannot be solved at all,
            # integrality or not (its all-continuous twin raises the same class in a pristine process)
            rec["ref_unsolvable"] = self.ref_ops(op[1], op, relax=True)
        return out

    @staticmethod
    def _site_globals(kind, filename):
        """What the namespace of the user's calling code looks like: a bare dict ("plain": exec'd
        code, embedded interpreters), the __main__ of `python -c` / the REPL / piped stdin ("main"),
        of `python script.py` ("script"), of a notebook cell ("nb").  Code that inspects its caller
        (warnings attributed to the caller's frame) meets all of these."""
        import builtins
        import importlib.machinery as im

        if kind == "main":
            return {"__name__": "__main__", "__doc__": None, "__package__": None, "__spec__": None,
                    "__loader__": im.BuiltinImporter, "__builtins__": builtins}
        if kind == "script":
            return {"__name__": "__main__", "__doc__": None, "__package__": None, "__spec__": None, "__file__": filename,
                    "__loader__": im.SourceFileLoader("__main__", filename), "__builtins__": builtins}
        if kind == "nb":
            return {"__name__": "__main__", "__doc__": None, "__package__": None, "__spec__": None,
                    "__loader__": None, "__builtins__": builtins}
        return {}

    def _call_from_fresh_site(self, P, kw, shared=False, kind="plain"):
        """P.solve(**kw) issued from a call site of its own (own file name, own globals): every
        solve of a history is a different line of the user's program as far as Python's
        once-per-location warning registry is concerned."""
        if shared and kind == "plain":
            # the same line of a user's helper function (build a model, solve it) executed again
            if self.shared_site is None:
                self.shared_site = (compile("out = P.solve(**kw)", "<user-op-shared>", "exec"), {})
            code, g = self.shared_site
            g["P"], g["kw"] = P, kw
            exec(code, g)
            return g.pop("out")
        self.site += 1
        g = self._site_globals(kind, f"<user-op-{self.site}>")
        g["P"], g["kw"] = P, kw
        exec(compile("out = P.solve(**kw)", f"<user-op-{self.site}>", "exec"), g)
        return g["out"]

    def _inline(self, m, sh, sol, a):
        """C06 / C07 predicates, computed from the harness's own objects and shadow."""
        import numpy as np

        vals = dict(sol.values)
        out = {}
        if not vals:
            return out
        spec = sh["spec"]
        want = S.problem_vars(sh)
        out["names_ok"] = set(vals) == want and len(vals) == len(want)
        out["names_missing"] = sorted(want - set(vals))
        out["names_extra"] = sorted(set(vals) - want)
        tol = a.get("tol")
        atol = 1e-5 if tol is None else max(1e-5, 10.0 * tol)
        worst = None
        try:
            for cname in sh["cons"]:
                cobj = m.cons[cname]
                for j, c in enumerate(cobj if isinstance(cobj, list) else [cobj]):
                    with np.errstate(all="ignore"):
                        val = float(c.evaluate(vals))
                    # (Constraint.violation() uses max(0.0, value), which hides a NaN value)
                    if val != val:
                        v = float("inf")
                    elif c.sense == "<=":
                        v = max(0.0, val)
                    elif c.sense == ">=":
                        v = max(0.0, -val)
                    else:
                        v = abs(val)
                    mag = abs(val) if val == val and abs(val) != float("inf") else 1.0
                    allowed = atol + 1e-5 * max(1.0, mag)
                    if not (v <= allowed):
                        if v != v:
                            v = float("inf")
                        if worst is None or v > worst[0]:
                            worst = [v, cname, j, fl(allowed)]
            if worst is not None:
                worst[0] = fl(worst[0])
            out["con_viol"] = worst
        except Exception as e:  # noqa: BLE001
            out["con_viol_exc"] = type(e).__name__
        # second opinion, independent of optyx's own expression objects: the constraints and the
        # objective AS WRITTEN in the spec, evaluated by the harness's pure-Python semantics (a
        # mis-built expression -- e.g. a.dot(Q @ b) silently turned into a'Qa -- agrees with itself)
        if want <= set(vals) and all(isinstance(v, float) and v == v and abs(v) < 1e100 for v in vals.values()):
            iw = None
            for cname in sh["cons"]:
                try:
                    for j, v in enumerate(S.con_violations(spec, spec["cons"][cname], vals, sh["pv"])):
                        if v == v and v > 1e-3 and (iw is None or v > iw[0]):
                            iw = [v, cname, j]
                except Exception:  # noqa: BLE001 - outside the evaluator's domain: no opinion
                    pass
            out["con_viol_written"] = iw
            if sh["objective"] is not None:
                try:
                    ov = S.eval_expr(spec, spec["exprs"][sh["objective"]], vals, sh["pv"])
                    if isinstance(ov, float) and ov == ov and abs(ov) < 1e100:
                        out["obj_written"] = fl(ov)
                except Exception:  # noqa: BLE001
                    pass
        attrs = S.elem_attrs(sh)
        bworst = None
        for n, x in vals.items():
            if n not in attrs:
                continue
            lb, ub, _ = attrs[n]
            if lb is not None and not (x >= lb - atol * (1 + abs(lb))):
                d = lb - x if x == x else float("inf")
                if bworst is None or d > bworst[0]:
                    bworst = [d, n, "lb", fl(lb)]
            if ub is not None and not (x <= ub + atol * (1 + abs(ub))):
                d = x - ub if x == x else float("inf")
                if bworst is None or d > bworst[0]:
                    bworst = [d, n, "ub", fl(ub)]
        if bworst is not None:
            bworst[0] = fl(bworst[0])
        out["bound_viol"] = bworst
        if sol.objective_value is not None and sh["objective"] is not None and want <= set(vals):
            try:
                with np.errstate(all="ignore"):
                    re = m.exprs[sh["objective"]].evaluate(vals)
                re = float(np.asarray(re).item())
                out["obj_re"] = fl(re)
            except Exception as e:  # noqa: BLE001
                out["obj_re_exc"] = type(e).__name__
        # handle retrieval: shape and position
        hbad = []
        for d in spec["vars"]:
            names = S.element_names(d)
            if not all(n in vals for n in names):
                continue
            h = m.vars[d["name"]]
            try:
                got = sol[h]
                if d["kind"] == "scalar":
                    ok = _same(float(got), vals[d["name"]])
                elif d["kind"] == "vector":
                    ok = np.shape(got) == (d["n"],) and all(
                        _same(float(got[i]), vals[f"{d['name']}[{i}]"]) for i in range(d["n"])
                    )
                else:
                    ok = np.shape(got) == (d["rows"], d["cols"]) and all(
                        _same(float(got[i, j]), vals[S.mel_name(d, i, j)])
                        for i in range(d["rows"])
                        for j in range(d["cols"])
                    )
            except Exception as e:  # noqa: BLE001
                ok = False
            if not ok:
                hbad.append(d["name"])
            # views of the same container: slices (also strided / reversed), rows, columns,
            # diagonal, transpose, sub-matrix -- expected positions come from the spec, not from optyx
            for label, view, want in _views(d, h):
                try:
                    got = np.asarray(sol[view()], dtype=float)
                    w = np.array([[vals[n] for n in row] for row in want], dtype=float) if want and isinstance(want[0], list) else np.array([vals[n] for n in want], dtype=float)
                    ok = got.shape == w.shape and bool(np.all((got == w) | (np.isnan(got) & np.isnan(w))))
                except Exception:  # noqa: BLE001
                    ok = False
                if not ok:
                    hbad.append(f"{d['name']}:{label}")
        out["handles_bad"] = hbad
        return out


def run_ops(ops, knobs=None, params_as_constants=False):
    ex = Executor(knobs, params_as_constants)
    log = ex.run(ops)
    return {
        "log": log,
        "cache_info": ex.world.cache_info(),
        "knob_misses": ex.world.knob_misses,
        "seq": ex.world.seq,
        "clock": fl(ex.world.clock),
    }
