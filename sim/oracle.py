"""Oracles: tight comparison of observations and the per-property history checks.

All tolerances live here.
"""

from __future__ import annotations

RTOL = 1e-9  # incumbent vs reference: same code, same logical model, same machine
R2_SOLVE_RTOL = 5e-3  # C12 literal reference (Constants) on strictly convex members
SELF_RTOL = 1e-9  # C07 objective self-consistency


def num_close(a, b, rtol=RTOL):
    if isinstance(a, bool) or isinstance(b, bool):
        return a == b
    if a == b:
        return True
    try:
        return abs(a - b) <= rtol * (1.0 + abs(b))
    except TypeError:
        return False


def diff(a, b, path="", rtol=RTOL):
    """First difference between two JSON-like values, or None."""
    if isinstance(a, (int, float)) and isinstance(b, (int, float)) and not isinstance(a, bool) and not isinstance(b, bool):
        return None if num_close(a, b, rtol) else f"{path}: {a!r} != {b!r}"
    if type(a) is not type(b):
        if a is None or b is None or isinstance(a, (str, bool)) or isinstance(b, (str, bool)):
            return f"{path}: {a!r} != {b!r}"
    if isinstance(a, dict) and isinstance(b, dict):
        for k in sorted(set(a) | set(b)):
            if k not in a:
                return f"{path}.{k}: missing in run"
            if k not in b:
                return f"{path}.{k}: missing in reference"
            d = diff(a[k], b[k], f"{path}.{k}", rtol)
            if d:
                return d
        return None
    if isinstance(a, (list, tuple)) and isinstance(b, (list, tuple)):
        if len(a) != len(b):
            return f"{path}: length {len(a)} != {len(b)}"
        for i, (x, y) in enumerate(zip(a, b)):
            d = diff(x, y, f"{path}[{i}]", rtol)
            if d:
                return d
        return None
    return None if a == b else f"{path}: {a!r} != {b!r}"


def user_warnings(rec):
    """UserWarnings attributed to the user's call site or to optyx itself (what optyx emits).
    Warnings located inside SciPy are shown once per process by Python's default filter and are
    not optyx's to repeat; they are not compared."""
    return [w[1] for w in rec.get("warn", []) if w[0] == "UserWarning" and (len(w) < 3 or w[2] in ("user", "optyx"))]


def seam_sig(rec):
    return [(e["seam"], e.get("method")) for e in rec.get("events", [])]


def first_field(d):
    """'.values.x: 1 != 2' -> 'values'."""
    if not d:
        return ""
    s = d.lstrip(".")
    for stop in (".", "[", ":"):
        i = s.find(stop)
        if i > 0:
            s = s[:i]
    return s


def compare_with_ref(rec, ref_rec, what=("events", "obs", "warn")):
    """Tight comparison of one observation with its reference record."""
    if "events" in what:
        d = diff(rec.get("events"), ref_rec.get("events"), "events")
        if d:
            return "seam", d
    if "obs" in what:
        d = diff(rec.get("obs"), ref_rec.get("obs"), "")
        if d:
            return first_field(d) or "obs", d
    if "warn" in what:
        d = diff(user_warnings(rec), user_warnings(ref_rec), "warnings")
        if d:
            return "warnings", d
    return None


# --------------------------------------------------------------------------
# inline predicates
# --------------------------------------------------------------------------


def c06_inline(rec):
    """OPTIMAL => feasible.  Returns a finding dict or None."""
    obs = rec.get("obs") or {}
    inl = rec.get("inline") or {}
    if obs.get("status") != "optimal":
        return None
    if inl.get("con_viol"):
        v = inl["con_viol"]
        return {"oracle": "optimal-but-constraint-violated", "detail": f"violation {v[0]} of {v[1]}[{v[2]}] (allowed {v[3]})"}
    if inl.get("bound_viol"):
        v = inl["bound_viol"]
        return {"oracle": "optimal-but-bound-violated", "detail": f"{v[1]} outside {v[2]}={v[3]} by {v[0]}"}
    if inl.get("con_viol_written"):
        v = inl["con_viol_written"]
        return {"oracle": "optimal-but-constraint-as-written-violated", "detail": f"violation {v[0]} of {v[1]}[{v[2]}] as written in the model (optyx's own expression object reports it satisfied)"}
    return None


def c07_inline(rec):
    obs = rec.get("obs") or {}
    inl = rec.get("inline") or {}
    if not obs.get("values") or obs.get("obj") is None:
        return None
    if inl.get("names_ok") is False:
        return {"oracle": "values-keys-mismatch", "detail": f"missing {inl.get('names_missing')} extra {inl.get('names_extra')}"}
    if inl.get("handles_bad"):
        return {"oracle": "handle-retrieval", "detail": f"handles {inl['handles_bad']}"}
    if "obj_re" in inl:
        a, b = obs["obj"], inl["obj_re"]
        if isinstance(b, str) or abs(b) > 1e100 or any(isinstance(v, str) or abs(v) > 1e100 for v in obs["values"].values()):
            # the objective overflows / is undefined at (or right next to) the returned point: outside
            # its floating-point domain there is no value to be consistent with (solvers clamp such
            # values differently, intermediate inf - inf gives nan).  Magnitudes up to 1e100 are judged.
            return None
        if isinstance(a, str):
            return {"oracle": "objective-value-inconsistent", "detail": f"reported {a} recomputed {b}"}
        elif not num_close(a, b, SELF_RTOL):
            return {"oracle": "objective-value-inconsistent", "detail": f"reported {a!r} recomputed {b!r}"}
    if "obj_written" in inl and isinstance(obs["obj"], float) and abs(obs["obj"]) < 1e100:
        a, b = obs["obj"], inl["obj_written"]
        if isinstance(b, float) and not num_close(a, b, 1e-6):
            return {"oracle": "objective-value-differs-from-objective-as-written", "detail": f"reported {a!r}, the objective as written in the model gives {b!r} at the returned values"}
    return None
