"""Per-property judges: execute a case, evaluate its oracles, measure reach."""

from __future__ import annotations

from . import oracle as O
from .runner import (
    HarnessFailure,
    Reach,
    RefCache,
    _finding,
    _walk_common,
    execute,
    judge_history,
    judge_monitor,
)


def _base(case):
    res = execute(case["ops"], case["knobs"])
    reach = Reach()
    _walk_common(res, reach)
    refs = RefCache(case["knobs"])
    return res, reach, refs


def _done(case, res, reach, refs, findings):
    r = reach.dump()
    r["ref_forks"] = refs.forks
    r["knob_misses"] = res.get("knob_misses", [])
    return {"findings": findings, "reach": r, "ops": len(case["ops"])}


def _probe_c13(res, reach):
    last = {}
    edits_since = {}
    for rec in res["log"]:
        op = rec["op"]
        if op in ("set_lb", "set_ub"):
            edits_since["bounds"] = True
        if op == "solve":
            if edits_since.pop("bounds", False) and last.get("solved"):
                reach.probe("bounds-changed-between-solves")
            a = rec.get("abs")
            if a and a[2]:
                last["hess"] = True
            last["solved"] = True
        if op in ("minimize", "maximize") and last.get("hess"):
            reach.probe("objective-replaced-after-hess_fn")
            last["hess"] = False


def judge_c13(case):
    res, reach, refs = _base(case)
    _probe_c13(res, reach)
    findings = judge_history("C13", case, res, reach, refs)
    return _done(case, res, reach, refs, findings)


JUDGES = {
    "C13": judge_c13,
}
