"""Per-property judges: execute a case, evaluate its oracles, measure reach."""

from __future__ import annotations

from . import oracle as O
from .runner import (
    HarnessFailure,
    Reach,
    RefCache,
    _finding,
    _walk_common,
    execute,
    judge_history,
    judge_monitor,
)


def _base(case):
    res = execute(case["ops"], case["knobs"])
    reach = Reach()
    _walk_common(res, reach)
    refs = RefCache(case["knobs"])
    return res, reach, refs


def _done(case, res, reach, refs, findings):
    r = reach.dump()
    r["ref_forks"] = refs.forks
    r["knob_misses"] = res.get("knob_misses", [])
    return {"findings": findings, "reach": r, "ops": len(case["ops"])}


def _probe_c13(res, reach):
    last = {}
    edits_since = {}
    for rec in res["log"]:
        op = rec["op"]
        if op in ("set_lb", "set_ub"):
            edits_since["bounds"] = True
        if op == "solve":
            if edits_since.pop("bounds", False) and last.get("solved"):
                reach.probe("bounds-changed-between-solves")
            a = rec.get("abs")
            if a and a[2]:
                last["hess"] = True
            last["solved"] = True
        if op in ("minimize", "maximize") and last.get("hess"):
            reach.probe("objective-replaced-after-hess_fn")
            last["hess"] = False


def judge_c13(case):
    res, reach, refs = _base(case)
    _probe_c13(res, reach)
    findings = judge_history("C13", case, res, reach, refs, skip_planned=True)
    return _done(case, res, reach, refs, findings)


def _probe_c12(res, reach):
    set_since = {}
    for rec in res["log"]:
        op = rec["op"]
        if op in ("param_set", "vparam_set", "pel_set"):
            for k in list(set_since):
                set_since[k] = True
            set_since.setdefault("solve", True)
        elif op == "call":
            reach.probe("call-after-set" if set_since.get("solve") else "call-before-any-set")
        elif op == "solve":
            if set_since.get("solve"):
                reach.probe("solve-after-set")
            a = rec.get("abs")
            if a and a[2]:
                reach.probe("solve-with-hess_fn-cached")


def judge_c12(case):
    res, reach, refs = _base(case)
    _probe_c12(res, reach)
    findings = judge_history("C12", case, res, reach, refs, r2=True)
    return _done(case, res, reach, refs, findings)


def _probe_c14(case, res, reach):
    names = {}
    for op in case["ops"]:
        if op[0] == "new_model":
            sp = op[2]
            for d in sp.get("params", []):
                key = ("param", d["name"])
                val = d.get("value", d.get("values"))
                if key in names and names[key] != val:
                    reach.probe("same-named-parameter-different-value")
                names.setdefault(key, val)
            for d in sp["vars"]:
                key = ("var", d["name"])
                val = (d.get("lb"), d.get("ub"), d.get("n"), d.get("domain"))
                if key in names and names[key] != val:
                    reach.probe("same-named-variable-different-decl")
                names.setdefault(key, val)
        elif op[0] == "drop_model":
            reach.probe("model-dropped-and-collected")
        elif op[0] == "flood":
            reach.probe("flood")


def judge_c14(case):
    res, reach, refs = _base(case)
    _probe_c14(case, res, reach)
    # (an adversary's solve may be hit by a fault -- a raising callback: what it leaves behind in the
    # process must not reach the other models; the faulted solve itself has no fault-free twin)
    findings = judge_history("C14", case, res, reach, refs, skip_planned=True)
    return _done(case, res, reach, refs, findings)


def _judge_inline(prop, fn, case):
    res = execute(case["ops"], case["knobs"])
    reach = Reach()
    _walk_common(res, reach)
    refs = RefCache(case["knobs"])
    findings = []
    for rec in res["log"]:
        if rec["op"] != "solve":
            continue
        obs = rec.get("obs") or {}
        if "status" not in obs:
            continue
        reach.judged += 1
        peer = [f for f in rec.get("fired", []) if "peer" in f]
        pk = tuple((f["peer"], f.get("cls"), f.get("xkind"), f.get("k")) for f in peer)
        ent = tuple(e.get("method") for e in rec.get("events", []))
        reach.nontrivial.add((ent, pk, obs["status"], bool(obs.get("values"))))
        reach.probe(f"status:{obs['status']}")
        f = fn(rec)
        if f:
            witness = "real"
            if any(p["peer"] == "scripted" for p in peer):
                witness = "scripted"
            elif any(p["peer"] == "truncate" for p in peer):
                witness = "truncated"
            findings.append(_finding(prop, f["oracle"], rec, f["detail"] + f" [witness={witness}; entered={list(ent)}]", {"witness": witness}))
    return _done(case, res, reach, refs, findings)


def judge_c06(case):
    return _judge_inline("C06", O.c06_inline, case)


def judge_c07(case):
    return _judge_inline("C07", O.c07_inline, case)


def judge_c20(case):
    res, reach, refs = _base(case)
    findings = judge_monitor("C20", res)
    for rec in res["log"]:
        if rec.get("reclimit") is not None and rec.get("reclimit_inside") not in (None, rec["reclimit"]):
            findings.append(_finding("C20", "recursionlimit-inside-with", rec, f"{rec.get('reclimit_inside')} != {rec['reclimit']}"))
        if rec["op"] != "solve" or not rec.get("planned"):
            continue
        faults = [f for f in rec.get("fired", []) if "fault" in f]
        if not faults:
            reach.probe("fault-planned-but-not-reached")
            continue
        f = faults[-1]
        if f["fault"] == "compile":
            # raised while optyx compiles (before the solver, or lazily inside a callback): only the
            # global-state and recovery oracles apply
            reach.probe("compile-fault-fired")
            continue
        obs = rec.get("obs") or {}
        evs = rec.get("events") or []
        left = bool(evs) and evs[-1].get("raised") == f["exc"]
        if f["fault"] == "eval" and f.get("after_exit"):
            left = True  # raised by optyx's own post-solve evaluation of a callback: nothing can swallow it but optyx
        reach.judged += 1
        if not left and f["fault"] in ("eval", "cbi") and f["exc"] not in (rec.get("cb_raised") or []) and evs:
            # the evaluation raised inside one of optyx's own callbacks and the exception never
            # reached the solver: optyx itself swallowed it.  "If ... any callback raises ... the call
            # either returns a FAILED solution or propagates the exception" still applies.
            reach.probe("evaluation-fault-did-not-reach-the-solver")
            outcome = obs.get("status") or ("exc:" + str(obs.get("exc")))
            if not (obs.get("status") == "failed" or obs.get("exc") == f["exc"]):
                findings.append(_finding("C20", "fault-outcome", rec, f"injected {f['exc']} in a {f.get('kind')} evaluation was swallowed inside optyx's own callback; solve gave {outcome}"))
            continue
        if not left:
            reach.probe("fault-swallowed-inside-scipy")
            continue
        reach.probe("fault-left-the-solver:" + f["exc"])
        outcome = obs.get("status") or ("exc:" + str(obs.get("exc")))
        reach.nontrivial.add((f["fault"], f.get("kind"), f.get("where"), bool(f.get("after_exit")), f["exc"], evs[-1].get("method") if evs else None, outcome, bool(rec.get("reclimit")), len(evs)))
        ok = obs.get("status") == "failed" or obs.get("exc") == f["exc"]
        if not ok:
            findings.append(_finding("C20", "fault-outcome", rec, f"injected {f['exc']} at {f['fault']} left the solver, but solve gave {outcome}"))
    findings += judge_history("C20", case, res, reach, refs, skip_planned=True)
    return _done(case, res, reach, refs, findings)


_PRE_SOLVER_EXC = ("IntegerVariableError", "NonLinearError", "NoObjectiveError")


def _relax_warnings(rec):
    out = []
    for w in rec.get("warn", []):
        cat, text = w[0], w[1]
        if cat == "UserWarning" and "integer/binary" in text:
            i, j = text.find("["), text.rfind("] have")
            out.append(text[i + 1 : j] if 0 <= i < j else "")
    return out


def _split_names(inside, expected):
    """Does the bracketed list name exactly `expected` (names may contain commas)?"""
    return inside == ", ".join(expected) or sorted(_greedy_split(inside)) == sorted(expected)


def _greedy_split(inside):
    parts, depth, cur = [], 0, ""
    for ch in inside:
        if ch == "[":
            depth += 1
        elif ch == "]":
            depth -= 1
        if ch == "," and depth == 0:
            parts.append(cur.strip())
            cur = ""
        else:
            cur += ch
    if cur.strip():
        parts.append(cur.strip())
    return parts


def judge_c18(case):
    from . import spec as S

    res, reach, refs = _base(case)
    findings = []
    # declared attributes of every element reached through every route
    shadow_attrs = {}
    for op in case["ops"]:
        if op[0] == "new_model":
            shadow_attrs[op[1]] = S.elem_attrs(S.new_shadow(op[2]))
    for rec in res["log"]:
        obs = rec.get("obs") or {}
        if rec["op"] == "read_elems":
            reach.judged += 1
            attrs = shadow_attrs[rec["mid"]]
            for name, lb, ub, dom in obs.get("elems", []):
                reach.nontrivial.add(("read_elems", dom, name))
                want = attrs.get(name)
                if want is None:
                    findings.append(_finding("C18", "route-element-unknown", rec, f"{name}"))
                elif dom != want[2] or (dom == "binary" and (lb != 0.0 or ub != 1.0)):
                    findings.append(_finding("C18", "binary-bounds-or-domain-lost", rec, f"{name}: lb={lb} ub={ub} domain={dom}, declared {want}"))
            if "exc" in obs:
                findings.append(_finding("C18", "route-raised", rec, obs["exc"]))
            continue
        if rec["op"] != "solve":
            continue
        D = rec.get("noncont") or []
        if not D:
            continue
        reach.judged += 1
        strict = "ref_relaxed" not in rec
        evs = rec.get("events") or []
        ent = tuple(e.get("method") for e in evs)
        a = rec.get("abs")
        reach.nontrivial.add(("strict" if strict else "relaxed", ent, obs.get("status") or obs.get("exc"), tuple(a) if a else None, len(D)))
        if strict:
            if "exc" not in obs:
                findings.append(_finding("C18", "strict-did-not-raise", rec, f"strict=True returned status {obs.get('status')} with non-continuous {D}"))
            elif obs["exc"] not in _PRE_SOLVER_EXC:
                # some other exception: fine when the model cannot be solved whatever the domains are
                # (its all-continuous twin raises the same class before any solver runs), a finding otherwise
                twin = refs.get(rec["ref_unsolvable"]) if "ref_unsolvable" in rec else None
                tobs = (twin or {}).get("obs") or {}
                if tobs.get("exc") == obs["exc"] and not (twin or {}).get("events"):
                    reach.probe("strict-on-unsolvable-model")
                else:
                    findings.append(_finding("C18", "strict-unexpected-exception", rec, f"{obs['exc']} (all-continuous twin: {tobs.get('exc') or tobs.get('status')})"))
            elif obs["exc"] == "IntegerVariableError" and sorted(obs.get("exc_names") or []) != sorted(D):
                findings.append(_finding("C18", "strict-names", rec, f"listed {obs.get('exc_names')} expected {D}"))
            if evs or rec.get("seq_delta"):
                findings.append(_finding("C18", "strict-solver-ran", rec, f"{len(evs)} solver entries before the raise"))
            if a and a[3]:
                reach.probe("strict-with-lp-cache-present")
            if a and a[1]:
                reach.probe("strict-with-solver-cache-present")
            continue
        if "exc" in obs:
            # no solution returned, so nothing was relaxed silently -- but the property also says the
            # call *returns the solution of the relaxation*: a solve that raises although its
            # all-continuous twin (same call, pristine process) returns is a finding
            if not rec.get("planned"):
                tobs = (refs.get(rec["ref_relaxed"]) or {}).get("obs") or {}
                if "exc" not in tobs:
                    findings.append(_finding("C18", "relaxed-solve-raised", rec, f"{obs['exc']} although the all-continuous twin returned status {tobs.get('status')}"))
            continue
        ws = _relax_warnings(rec)
        if not ws:
            findings.append(_finding("C18", "relaxed-without-warning", rec, f"status {obs.get('status')}, non-continuous {D}, no relaxation warning"))
        for inside in ws:
            if not _split_names(inside, D):
                findings.append(_finding("C18", "warning-names", rec, f"warning lists [{inside}] expected {D}"))
                break
        if rec.get("planned"):
            continue  # a scripted peer / fault shaped this solve: its relaxed twin has none
        ref = refs.get(rec["ref_relaxed"])
        c = O.compare_with_ref(rec, ref, ("events", "obs"))
        if c:
            findings.append(_finding("C18", f"relaxation-differs/{c[0]}", rec, c[1]))
    return _done(case, res, reach, refs, findings)


JUDGES = {
    "C18": judge_c18,
    "C20": judge_c20,
    "C06": judge_c06,
    "C07": judge_c07,
    "C14": judge_c14,
    "C12": judge_c12,
    "C13": judge_c13,
}
