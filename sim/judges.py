"""Per-property judges: execute a case, evaluate its oracles, measure reach."""

from __future__ import annotations

from . import oracle as O
from .runner import (
    HarnessFailure,
    Reach,
    RefCache,
    _finding,
    _walk_common,
    execute,
    judge_history,
    judge_monitor,
)


def _base(case):
    res = execute(case["ops"], case["knobs"])
    reach = Reach()
    _walk_common(res, reach)
    refs = RefCache(case["knobs"])
    return res, reach, refs


def _done(case, res, reach, refs, findings):
    r = reach.dump()
    r["ref_forks"] = refs.forks
    r["knob_misses"] = res.get("knob_misses", [])
    return {"findings": findings, "reach": r, "ops": len(case["ops"])}


def _probe_c13(res, reach):
    last = {}
    edits_since = {}
    for rec in res["log"]:
        op = rec["op"]
        if op in ("set_lb", "set_ub"):
            edits_since["bounds"] = True
        if op == "solve":
            if edits_since.pop("bounds", False) and last.get("solved"):
                reach.probe("bounds-changed-between-solves")
            a = rec.get("abs")
            if a and a[2]:
                last["hess"] = True
            last["solved"] = True
        if op in ("minimize", "maximize") and last.get("hess"):
            reach.probe("objective-replaced-after-hess_fn")
            last["hess"] = False


def judge_c13(case):
    res, reach, refs = _base(case)
    _probe_c13(res, reach)
    findings = judge_history("C13", case, res, reach, refs)
    return _done(case, res, reach, refs, findings)


def _probe_c12(res, reach):
    set_since = {}
    for rec in res["log"]:
        op = rec["op"]
        if op in ("param_set", "vparam_set", "pel_set"):
            for k in list(set_since):
                set_since[k] = True
            set_since.setdefault("solve", True)
        elif op == "call":
            reach.probe("call-after-set" if set_since.get("solve") else "call-before-any-set")
        elif op == "solve":
            if set_since.get("solve"):
                reach.probe("solve-after-set")
            a = rec.get("abs")
            if a and a[2]:
                reach.probe("solve-with-hess_fn-cached")


def judge_c12(case):
    res, reach, refs = _base(case)
    _probe_c12(res, reach)
    findings = judge_history("C12", case, res, reach, refs, r2=True)
    return _done(case, res, reach, refs, findings)


def _probe_c14(case, res, reach):
    names = {}
    for op in case["ops"]:
        if op[0] == "new_model":
            sp = op[2]
            for d in sp.get("params", []):
                key = ("param", d["name"])
                val = d.get("value", d.get("values"))
                if key in names and names[key] != val:
                    reach.probe("same-named-parameter-different-value")
                names.setdefault(key, val)
            for d in sp["vars"]:
                key = ("var", d["name"])
                val = (d.get("lb"), d.get("ub"), d.get("n"), d.get("domain"))
                if key in names and names[key] != val:
                    reach.probe("same-named-variable-different-decl")
                names.setdefault(key, val)
        elif op[0] == "drop_model":
            reach.probe("model-dropped-and-collected")
        elif op[0] == "flood":
            reach.probe("flood")


def judge_c14(case):
    res, reach, refs = _base(case)
    _probe_c14(case, res, reach)
    findings = judge_history("C14", case, res, reach, refs)
    return _done(case, res, reach, refs, findings)


def _judge_inline(prop, fn, case):
    res = execute(case["ops"], case["knobs"])
    reach = Reach()
    _walk_common(res, reach)
    refs = RefCache(case["knobs"])
    findings = []
    for rec in res["log"]:
        if rec["op"] != "solve":
            continue
        obs = rec.get("obs") or {}
        if "status" not in obs:
            continue
        reach.judged += 1
        peer = [f for f in rec.get("fired", []) if "peer" in f]
        pk = tuple((f["peer"], f.get("cls"), f.get("xkind"), f.get("k")) for f in peer)
        ent = tuple(e.get("method") for e in rec.get("events", []))
        reach.nontrivial.add((ent, pk, obs["status"], bool(obs.get("values"))))
        reach.probe(f"status:{obs['status']}")
        f = fn(rec)
        if f:
            witness = "real"
            if any(p["peer"] == "scripted" for p in peer):
                witness = "scripted"
            elif any(p["peer"] == "truncate" for p in peer):
                witness = "truncated"
            findings.append(_finding(prop, f["oracle"], rec, f["detail"] + f" [witness={witness}; entered={list(ent)}]", {"witness": witness}))
    return _done(case, res, reach, refs, findings)


def judge_c06(case):
    return _judge_inline("C06", O.c06_inline, case)


def judge_c07(case):
    return _judge_inline("C07", O.c07_inline, case)


JUDGES = {
    "C06": judge_c06,
    "C07": judge_c07,
    "C14": judge_c14,
    "C12": judge_c12,
    "C13": judge_c13,
}
