"""The simulator's side of every seam: solver peers, clock, knobs, global-state monitor.

One World per run process.  Nothing here draws random numbers or reads a real
clock: every decision comes from the explicit plan attached to the op being
executed.
"""

from __future__ import annotations

import functools
import re
import sys
import warnings

EXC = {
    "ValueError": ValueError,
    "FloatingPointError": FloatingPointError,
    "MemoryError": MemoryError,
    "KeyboardInterrupt": KeyboardInterrupt,
    "ZeroDivisionError": ZeroDivisionError,
    "RuntimeError": RuntimeError,
    "RecursionError": RecursionError,
}

DEFAULT_KNOBS = {
    "thr_autodiff": 400,
    "thr_compiler": 400,
    "thr_analysis": 400,
    "thr_expressions": 400,
    "lru_compile": 1024,
    "lru_gradient": 4096,
    "lru_degree": 1024,
}

_HEX = re.compile(r"0x[0-9a-fA-F]+")


class InjectedFault(Exception):
    """Never raised; marker base for documentation only."""


def fl(x):
    """float -> JSON-able, exactly round-trippable."""
    if x is None:
        return None
    x = float(x)
    if x != x:
        return "nan"
    if x == float("inf"):
        return "inf"
    if x == float("-inf"):
        return "-inf"
    return x


def fl_list(a):
    import numpy as np

    if a is None:
        return None
    a = np.asarray(a, dtype=float)
    if a.ndim == 0:
        return fl(a)
    if a.ndim == 1:
        return [fl(v) for v in a]
    return [fl_list(r) for r in a]


class World:
    def __init__(self, knobs=None):
        self.knobs = dict(DEFAULT_KNOBS)
        if knobs:
            self.knobs.update(knobs)
        self.seq = 0  # global seam event sequence number (whole run)
        self.clock = 0.0  # simulated seconds
        self.events = []  # seam events of the op being executed
        self.warnings = []  # (category, text) of the op being executed
        self.plan = None  # fault / peer plan of the solve being executed
        self.compile_count = 0
        self.eval_count = 0
        self.eval_by_name = {}
        self.eval_after_exit = 0
        self.exited = False  # a solver entry of the current op has returned or raised
        self.cb_count = 0  # callback events within the current solve
        self.entry_count = 0  # solver entries within the current solve
        self.fired = []  # faults / peer behaviours that actually fired in this op
        self.cb_raised = []  # exceptions that passed from one of optyx's callbacks into the solver
        self.knob_misses = []
        self.real_minimize = None
        self.real_linprog = None
        self.base_reclimit = None
        self.recorder = None
        self.cb_by_kind = {}

    # ------------------------------------------------------------------ install
    def install(self):
        import scipy.optimize
        import optyx.solvers.scipy_solver as ss
        import optyx.solvers.lp_solver as ls

        if not hasattr(ss, "minimize"):
            raise RuntimeError("seam-missing: optyx.solvers.scipy_solver.minimize")
        self.real_minimize = scipy.optimize.minimize
        self.real_linprog = scipy.optimize.linprog
        ss.minimize = self.sim_minimize
        scipy.optimize.linprog = self.sim_linprog
        clock = _Clock(self)
        if hasattr(ss, "time"):
            ss.time = clock
        if hasattr(ls, "time"):
            ls.time = clock
        # compile entry points (imported by the solver functions at call time): transparent unless
        # the plan of the solve being executed asks for a fault at the k-th compile call
        import optyx.core.autodiff as ad
        import optyx.core.compiler as comp

        for mod, name in ((comp, "compile_expression"), (ad, "compile_jacobian"), (ad, "compile_hessian")):
            real = getattr(mod, name, None)
            if real is not None:
                setattr(mod, name, self._wrap_compile(real, name))
        self._apply_knobs()
        # Python's *default* warning behaviour (each warning shown once per location, remembered in
        # the location's __warningregistry__): that registry is process-global state a user's
        # process really has, so it stays in the simulation.  Every solve op is issued from its own
        # call site (see executor._call_from_fresh_site), like distinct lines of a user's program.
        warnings.resetwarnings()
        for cat in (DeprecationWarning, PendingDeprecationWarning, ImportWarning, ResourceWarning):
            warnings.simplefilter("ignore", cat)

        def recorder(message, category, filename, lineno, file=None, line=None):
            if str(message) == "verif-canary":
                self.canary_hits += 1
                return
            self.warnings.append((category.__name__, str(message), _origin(filename)))

        self.recorder = recorder
        warnings.showwarning = recorder
        self.base_reclimit = sys.getrecursionlimit()
        # the filter list as the application set it up: a solve may not leave another list, or
        # other entries, behind (it is process-global state like the display hook)
        self.base_filters = warnings.filters
        self.base_filters_copy = list(warnings.filters)
        # a canary for Python's once-per-location memory: a warning issued from one fixed location
        # of the "application" is shown once; it is shown again only if something reset that memory
        # for the whole process (every mutation of the filter list does) -- measured, not judged:
        # SciPy / NumPy internals may do that legitimately
        self.canary_hits = 0
        # who mutates the filter list (optyx itself, or SciPy / NumPy internals)?
        self.filter_mutations = {}
        real_fm = warnings._filters_mutated

        def filters_mutated():
            f = sys._getframe(1)
            while f is not None and f.f_code.co_filename == warnings.__file__:
                f = f.f_back
            who = _origin(f.f_code.co_filename) if f is not None else "other"
            self.filter_mutations[who] = self.filter_mutations.get(who, 0) + 1
            real_fm()

        warnings._filters_mutated = filters_mutated
        self._canary_code = compile("import warnings as _w\n_w.warn('verif-canary', RuntimeWarning)", "<verif-canary>", "exec")
        self._canary_globals = {"__name__": "verif_canary"}
        exec(self._canary_code, self._canary_globals)

    def _apply_knobs(self):
        import optyx.core.autodiff as ad
        import optyx.core.compiler as comp
        import optyx.analysis as an
        import optyx.core.expressions as ex

        for mod, key in (
            (ad, "thr_autodiff"),
            (comp, "thr_compiler"),
            (an, "thr_analysis"),
            (ex, "thr_expressions"),
        ):
            if hasattr(mod, "_RECURSION_THRESHOLD"):
                mod._RECURSION_THRESHOLD = self.knobs[key]
            else:
                self.knob_misses.append(key)
        for mod, attr, key in (
            (comp, "_compile_cached", "lru_compile"),
            (ad, "_gradient_cached", "lru_gradient"),
            (an, "_compute_degree_cached", "lru_degree"),
        ):
            f = getattr(mod, attr, None)
            if f is not None and hasattr(f, "__wrapped__") and hasattr(f, "cache_info"):
                if f.cache_info().maxsize != self.knobs[key]:
                    setattr(
                        mod,
                        attr,
                        functools.lru_cache(maxsize=self.knobs[key])(f.__wrapped__),
                    )
            else:
                self.knob_misses.append(key)

    def cache_info(self):
        import optyx.core.autodiff as ad
        import optyx.core.compiler as comp
        import optyx.analysis as an

        out = {}
        for mod, attr in (
            (comp, "_compile_cached"),
            (ad, "_gradient_cached"),
            (an, "_compute_degree_cached"),
        ):
            f = getattr(mod, attr, None)
            if f is not None and hasattr(f, "cache_info"):
                ci = f.cache_info()
                out[attr] = [ci.hits, ci.misses, ci.maxsize, ci.currsize]
        return out

    # ------------------------------------------------------------------ monitor
    def monitor(self):
        """Process-global state that must be as installed (outside user `with` blocks)."""
        before = self.canary_hits
        hook_ok = warnings.showwarning is self.recorder
        if hook_ok:
            exec(self._canary_code, self._canary_globals)
        return {
            "showwarning_ok": hook_ok,
            "reclimit_ok": sys.getrecursionlimit() == self.base_reclimit,
            "reclimit": sys.getrecursionlimit(),
            "filters_ok": warnings.filters is self.base_filters and list(warnings.filters) == self.base_filters_copy,
            "canary_redelivered": self.canary_hits > before,
            "scipy_dg_entries": _scipy_delta_grad_entries(),
            "filters_mutated_by_optyx": self.filter_mutations.pop("optyx", 0),
            "filters_mutated_by_other": self.filter_mutations.pop("other", 0) + self.filter_mutations.pop("user", 0),
        }

    def swap_hook(self):
        """The application installs another warnings.showwarning between two solves."""

        def recorder2(message, category, filename, lineno, file=None, line=None):
            if str(message) == "verif-canary":
                self.canary_hits += 1
                return
            self.warnings.append((category.__name__, str(message), _origin(filename)))

        self.recorder = recorder2
        warnings.showwarning = recorder2

    def repair_globals(self):
        warnings.showwarning = self.recorder
        sys.setrecursionlimit(self.base_reclimit)
        if not (warnings.filters is self.base_filters and list(warnings.filters) == self.base_filters_copy):
            self.base_filters[:] = self.base_filters_copy
            warnings.filters = self.base_filters
            warnings._filters_mutated()

    # ------------------------------------------------------------------ per-op
    def begin_op(self, plan=None):
        self.events = []
        self.warnings = []
        self.fired = []
        self.cb_raised = []
        self.plan = plan
        self.compile_count = 0
        self.eval_count = 0
        self.eval_by_name = {}
        self.eval_after_exit = 0
        self.exited = False
        self.cb_count = 0
        self.entry_count = 0
        self.cb_by_kind = {}

    def _tick(self, cost):
        self.seq += 1
        self.clock += cost
        return self.seq

    def _maybe_raise(self, site, kind=None):
        """site: 'entry' | 'exit' | 'cb'."""
        p = self.plan
        if not p or "fault" not in p:
            return
        f = p["fault"]
        which = f.get("entry", 0)
        if site in ("entry", "exit"):
            if f["site"] == site and self.entry_count - 1 == which:
                self.fired.append({"fault": site, "exc": f["exc"], "seq": self.seq})
                if self.events:
                    self.events[-1]["raised"] = f["exc"]
                raise EXC[f["exc"]](f"injected {f['exc']} at solver {site}")
        else:
            if f["site"] == "cb" and self.cb_count == f["k"]:
                self.fired.append(
                    {"fault": "cb", "k": f["k"], "kind": kind, "exc": f["exc"], "seq": self.seq}
                )
                raise EXC[f["exc"]](f"injected {f['exc']} at callback {f['k']} ({kind})")

    def _wrap_compile(self, real, name):
        import functools

        @functools.wraps(real)
        def wrapped(*a, **k):
            p = self.plan
            if p and "fault" in p and p["fault"]["site"] == "compile" and p["fault"].get("of", name) == name:
                # ("of": only compile requests of one kind count, e.g. the Hessian's)
                self.compile_count += 1
                f = p["fault"]
                if self.compile_count == f["k"]:
                    self._tick(2.0 ** -13)
                    self.fired.append({"fault": "compile", "k": f["k"], "kind": name, "exc": f["exc"], "seq": self.seq})
                    raise EXC[f["exc"]](f"injected {f['exc']} at compile call {f['k']} ({name})")
            out = real(*a, **k)
            if callable(out):
                return self._wrap_eval(out, name)
            return out

        return wrapped

    def _wrap_eval(self, fn, name):
        """Every evaluation of a compiled callable is a countable event: the plan may make the
        k-th evaluation of the solve raise, or the j-th evaluation after the solver returned (the
        post-solve feasibility check is made of those).  The wrapper is a transparent proxy:
        attributes optyx puts on its compiled callables (or reads from them) go to the real one."""
        return _EvalProxy(self, fn, name)

    def _evaluated(self, fn, name, a, k):
        p = self.plan
        if p and "fault" in p and p["fault"]["site"] == "eval":
            f = p["fault"]
            self.eval_count += 1
            self.eval_by_name[name] = self.eval_by_name.get(name, 0) + 1
            hit = False
            if "after_exit" in f:
                if self.exited:
                    self.eval_after_exit += 1
                    hit = self.eval_after_exit == f["after_exit"]
            elif "of" in f:
                # the k-th evaluation of a callable of one kind (compile_hessian: the Hessian, ...)
                hit = name == f["of"] and self.eval_by_name[name] == f["k"]
            else:
                hit = self.eval_count == f["k"]
            if hit:
                self._tick(2.0 ** -13)
                self.fired.append({"fault": "eval", "k": self.eval_count, "after_exit": self.exited, "kind": name, "exc": f["exc"], "seq": self.seq})
                raise EXC[f["exc"]](f"injected {f['exc']} at evaluation {self.eval_count} of a compiled callable ({name})")
        return fn(*a, **k)

    def _peer_for(self, entry):
        p = self.plan or {}
        peers = list(p.get("peers") or [])
        if "peer" in p:
            peers.append(p["peer"])
        for q in peers:
            if q.get("entry", 0) == entry:
                return q
        return None

    def _wrap(self, fn, kind):
        if fn is None:
            return None

        def wrapped(*a, **k):
            self._tick(2.0 ** -13)
            self.cb_count += 1
            self.cb_by_kind[kind] = self.cb_by_kind.get(kind, 0) + 1
            self._maybe_raise("cb", kind)
            p = self.plan
            try:
                if p and "fault" in p and p["fault"]["site"] == "cbi" and self.cb_count == p["fault"]["k"]:
                    return self._call_with_inner_fault(fn, a, k, kind, p["fault"])
                return fn(*a, **k)
            except BaseException as e:  # noqa: BLE001 - recorded and re-raised
                self.cb_raised.append(type(e).__name__)
                raise

        return wrapped

    def _call_with_inner_fault(self, fn, a, k, kind, f):
        """The callback itself raises part-way: the exception is raised at the j-th line event
        executed inside optyx code (the compiled closures) during this one callback."""
        import sys as _sys

        count = [0]
        fired = [False]

        def local(frame, event, arg):
            if event == "line":
                count[0] += 1
                if count[0] == f["j"]:
                    fired[0] = True
                    self.fired.append({"fault": "cbi", "k": f["k"], "j": f["j"], "kind": kind, "exc": f["exc"], "seq": self.seq,
                                       "where": frame.f_code.co_name})
                    raise EXC[f["exc"]](f"injected {f['exc']} inside callback {f['k']} ({kind}) at optyx line event {f['j']}")
            return local

        def tracer(frame, event, arg):
            if event == "call" and "/optyx/" in frame.f_code.co_filename:
                return local
            return None

        old = _sys.gettrace()
        _sys.settrace(tracer)
        try:
            return fn(*a, **k)
        finally:
            _sys.settrace(old)

    # ------------------------------------------------------------------ minimize peer
    def sim_minimize(
        self,
        fun,
        x0,
        args=(),
        method=None,
        jac=None,
        hess=None,
        hessp=None,
        bounds=None,
        constraints=(),
        tol=None,
        callback=None,
        options=None,
        **kw,
    ):
        import numpy as np
        from scipy.optimize import OptimizeResult

        self._tick(2.0 ** -10)
        self.entry_count += 1
        my_entry = self.entry_count - 1
        cons = list(constraints) if constraints else []
        ev = {
            "seam": "minimize",
            "method": method,
            "n": int(np.asarray(x0).size),
            "ncons": len(cons),
            "ctypes": [c.get("type") for c in cons],
            "bounds": None if bounds is None else [[fl(a), fl(b)] for a, b in bounds],
            "hess": hess is not None,
            "jac": jac is not None,
            "x0": fl_list(x0),
            "tol": fl(tol),
            "options": dict(options) if options else None,
            "kw": sorted(kw),
        }
        self.events.append(ev)
        self._maybe_raise("entry")

        wfun = self._wrap(fun, "fun")
        wjac = self._wrap(jac, "jac") if callable(jac) else jac
        whess = self._wrap(hess, "hess") if callable(hess) else hess
        wcons = []
        for c in cons:
            d = dict(c)
            d["fun"] = self._wrap(c["fun"], "cfun")
            if callable(c.get("jac")):
                d["jac"] = self._wrap(c["jac"], "cjac")
            wcons.append(d)

        peer = self._peer_for(my_entry)
        opts = dict(options) if options else {}
        left = None
        try:
            if peer and peer["mode"] == "truncate":
                key = "maxfun" if method == "TNC" else "maxiter"
                opts[key] = peer["k"]
                self.fired.append({"peer": "truncate", "k": peer["k"], "method": method})
            if peer and peer["mode"] == "scripted" and peer.get("x") == "far":
                # no explicit point: one far away from the start (used to provoke optyx's retry)
                peer = dict(peer, x=[float(v) + 37.0 * (1 if i % 2 == 0 else -1) for i, v in enumerate(np.asarray(x0, dtype=float))])
            if peer and peer["mode"] == "scripted" and peer.get("x") != "real":
                # a peer that never runs SciPy: evaluates callbacks in a scripted order
                x0a = np.asarray(x0, dtype=float)
                for kind in peer.get("calls", ["fun", "jac", "cfun", "cjac"]):
                    if kind == "fun":
                        wfun(x0a)
                    elif kind == "jac" and callable(wjac):
                        wjac(x0a)
                    elif kind == "hess" and callable(whess):
                        whess(x0a)
                    elif kind == "cfun":
                        for c in wcons:
                            c["fun"](x0a)
                    elif kind == "cjac":
                        for c in wcons:
                            if callable(c.get("jac")):
                                c["jac"](x0a)
                res = None
            else:
                res = self.real_minimize(
                    wfun,
                    x0,
                    args=args,
                    method=method,
                    jac=wjac,
                    hess=whess,
                    hessp=hessp,
                    bounds=bounds,
                    constraints=wcons if wcons else (),
                    tol=tol,
                    callback=callback,
                    options=opts if opts else None,
                    **kw,
                )
            if peer and peer["mode"] == "scripted" and peer.get("x") == "real" and not np.all(np.isfinite(np.asarray(res.x, dtype=float))):
                # SciPy itself ended at a non-finite point: it never pairs such a point with
                # another status, so the real answer is delivered unchanged
                self.fired.append({"peer": "scripted-skipped-nonfinite", "cls": peer.get("cls"), "method": method})
                peer = None
            if peer and peer["mode"] == "scripted":
                if peer.get("x") == "real":
                    x = np.array(res.x, dtype=float)
                else:
                    x = np.array(peer["x"], dtype=float)
                fx = float(fun(x))
                res = OptimizeResult(
                    x=x,
                    fun=fx,
                    success=bool(peer["success"]),
                    status=int(peer.get("status", 0)),
                    message=str(peer["message"]),
                    nit=int(peer.get("nit", 1)),
                    nfev=self.cb_by_kind.get("fun", 0),
                )
                self.fired.append(
                    {
                        "peer": "scripted",
                        "cls": peer.get("cls"),
                        "method": method,
                        "success": bool(peer["success"]),
                        "xkind": peer.get("xkind"),
                    }
                )
            self._maybe_raise("exit")
        except BaseException as e:  # noqa: BLE001 - we only record and re-raise
            left = type(e).__name__
            ev["raised"] = left
            raise
        ev["result"] = {
            "success": bool(res.success),
            "status": int(getattr(res, "status", -99)),
            "message": str(res.message),
            "x": fl_list(res.x),
            "fun": fl(np.asarray(res.fun).item() if res.fun is not None else None),
            "nit": int(getattr(res, "nit", -1)),
        }
        ev["cb"] = dict(self.cb_by_kind)
        self.exited = True
        return res

    # ------------------------------------------------------------------ linprog peer
    def sim_linprog(
        self,
        c,
        A_ub=None,
        b_ub=None,
        A_eq=None,
        b_eq=None,
        bounds=(0, None),
        method="highs",
        **kw,
    ):
        import numpy as np
        from scipy.optimize import OptimizeResult

        self._tick(2.0 ** -10)
        self.entry_count += 1
        my_entry = self.entry_count - 1
        bl = None
        if bounds is not None:
            try:
                bl = [[fl(a), fl(b)] for a, b in bounds]
            except TypeError:
                bl = repr(bounds)
        ev = {
            "seam": "linprog",
            "method": method,
            "c": fl_list(c),
            "A_ub": fl_list(A_ub),
            "b_ub": fl_list(b_ub),
            "A_eq": fl_list(A_eq),
            "b_eq": fl_list(b_eq),
            "bounds": bl,
            "kw": sorted(kw),
        }
        self.events.append(ev)
        self._maybe_raise("entry")
        peer = self._peer_for(my_entry)
        try:
            if peer and peer["mode"] == "truncate":
                o = dict(kw.get("options") or {})
                o["maxiter"] = peer["k"]
                kw = dict(kw)
                kw["options"] = o
                self.fired.append({"peer": "truncate", "k": peer["k"], "method": method})
            res = self.real_linprog(
                c, A_ub=A_ub, b_ub=b_ub, A_eq=A_eq, b_eq=b_eq, bounds=bounds, method=method, **kw
            )
            if peer and peer["mode"] == "scripted":
                n = int(np.asarray(c).size)
                xk = peer.get("x")
                if xk == "real":
                    x = res.x
                elif xk is None:
                    x = None
                else:
                    x = np.array(xk, dtype=float)
                fun = None if x is None else float(np.dot(np.asarray(c, dtype=float), x))
                res = OptimizeResult(
                    x=x,
                    fun=fun,
                    success=bool(peer["success"]),
                    status=int(peer["status"]),
                    message=str(peer["message"]),
                    nit=int(peer.get("nit", 0)),
                    slack=None,
                    con=None,
                )
                self.fired.append(
                    {
                        "peer": "scripted",
                        "cls": peer.get("cls"),
                        "method": method,
                        "success": bool(peer["success"]),
                        "xkind": peer.get("xkind"),
                    }
                )
                del n
            self._maybe_raise("exit")
        except BaseException as e:  # noqa: BLE001
            ev["raised"] = type(e).__name__
            raise
        ev["result"] = {
            "success": bool(res.success),
            "status": int(res.status),
            "message": str(res.message),
            "x": fl_list(res.x),
            "fun": fl(res.fun),
            "nit": int(getattr(res, "nit", -1)),
        }
        return res


class _Clock:
    """Stands in for the `time` module inside the solver modules."""

    def __init__(self, world):
        self._w = world

    def perf_counter(self):
        return self._w.clock

    def time(self):
        return self._w.clock

    def monotonic(self):
        return self._w.clock


def _scipy_delta_grad_entries():
    """How many 'delta_grad == 0.0' entries SciPy's modules hold in their once-per-location
    registries (what the application has already been shown)."""
    n = 0
    for name, module in list(sys.modules.items()):
        if name.startswith("scipy.optimize"):
            reg = getattr(module, "__warningregistry__", None)
            if reg:
                n += sum(1 for k in reg if isinstance(k, tuple) and str(k[0]).startswith("delta_grad == 0.0"))
    return n


class _EvalProxy:
    """Callable stand-in for a compiled callable: counts / faults evaluations, forwards everything else."""

    __slots__ = ("_w", "_fn", "_name")

    def __init__(self, world, fn, name):
        object.__setattr__(self, "_w", world)
        object.__setattr__(self, "_fn", fn)
        object.__setattr__(self, "_name", name)

    def __call__(self, *a, **k):
        return self._w._evaluated(self._fn, self._name, a, k)

    def __getattr__(self, attr):
        return getattr(self._fn, attr)

    def __setattr__(self, attr, value):
        setattr(self._fn, attr, value)

    def __repr__(self):
        return repr(self._fn)


def _origin(filename):
    """Where a warning is attributed to: the user's call site, optyx itself, or elsewhere (SciPy)."""
    f = str(filename)
    if f.startswith("<user-op"):
        return "user"
    if "/optyx/" in f:
        return "optyx"
    return "other"


def scrub(s):
    return _HEX.sub("0x?", s) if isinstance(s, str) else s
