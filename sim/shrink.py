"""ddmin over explicit op lists + argument simplification; replay files."""

from __future__ import annotations

import copy
import json
import time

from .runner import HarnessFailure, judge_case
from .world import DEFAULT_KNOBS


def same_class(findings, prop, oracle, witness=None):
    for f in findings:
        if f["property"] == prop and f["oracle"] == oracle and (witness is None or f.get("witness") == witness):
            return f
    return None


class Budget:
    witness = None

    def __init__(self, max_execs=150, max_s=60.0):
        self.left = max_execs
        self.deadline = time.monotonic() + max_s

    def ok(self):
        return self.left > 0 and time.monotonic() < self.deadline

    def spend(self):
        self.left -= 1


def fails(prop, oracle, case, budget):
    if not budget.ok():
        return None
    budget.spend()
    try:
        out = judge_case(prop, case)
    except HarnessFailure:
        return None
    return same_class(out["findings"], prop, oracle, budget.witness)


def _used_names(ops):
    exprs, cons = set(), set()
    for op in ops:
        o = op[2] if op[0] == "with_reclimit" else op
        k = o[0]
        if k in ("minimize", "maximize", "evaluate"):
            exprs.add(o[2])
        elif k == "redeclare":
            exprs.add(o[4])
        elif k == "subject_to":
            cons.add(o[2])
        elif k in ("subject_to_list", "subject_to_bad"):
            cons.update(o[2])
        elif k == "compile":
            a = o[4]
            if "e" in a:
                exprs.add(a["e"])
            exprs.update(a.get("es", []))
    return exprs, cons


def prune_pools(case):
    """Drop pool expressions / constraints no op refers to."""
    c = copy.deepcopy(case)
    exprs, cons = _used_names(c["ops"])
    for op in c["ops"]:
        if op[0] in ("new_model", "redeclare"):
            sp = op[2]
            sp["exprs"] = {k: v for k, v in sp.get("exprs", {}).items() if k in exprs}
            sp["cons"] = {k: v for k, v in sp.get("cons", {}).items() if k in cons}
            sp["expr_order"] = [k for k in sp.get("expr_order", sorted(sp["exprs"])) if k in sp["exprs"]]
            sp["con_order"] = [k for k in sp.get("con_order", sorted(sp["cons"])) if k in sp["cons"]]
    return c


def shrink(prop, oracle, case, max_execs=150, max_s=60.0, witness=None):
    """Returns (minimised case, finding, executions used)."""
    budget = Budget(max_execs, max_s)
    budget.witness = witness
    best = copy.deepcopy(case)
    f0 = fails(prop, oracle, best, budget)
    if f0 is None:
        return case, None, max_execs - budget.left
    best_f = f0
    ops = best["ops"]
    # ddmin: drop chunks, then single ops
    n = 2
    while len(ops) >= 2 and budget.ok():
        chunk = max(1, len(ops) // n)
        removed = False
        i = 0
        while i < len(ops) and budget.ok():
            cand_ops = ops[:i] + ops[i + chunk :]
            if not cand_ops:
                i += chunk
                continue
            cand = dict(best, ops=cand_ops)
            f = fails(prop, oracle, cand, budget)
            if f is not None:
                ops = cand_ops
                best = cand
                best_f = f
                removed = True
                n = max(n - 1, 2)
            else:
                i += chunk
        if not removed:
            if chunk == 1:
                break
            n = min(len(ops), n * 2)
    # simplify: default knobs
    if best["knobs"] != DEFAULT_KNOBS and budget.ok():
        cand = dict(best, knobs=dict(DEFAULT_KNOBS))
        f = fails(prop, oracle, cand, budget)
        if f is not None:
            best, best_f = cand, f
        else:
            for k, v in DEFAULT_KNOBS.items():
                if best["knobs"].get(k) != v and budget.ok():
                    kn = dict(best["knobs"])
                    kn[k] = v
                    cand = dict(best, knobs=kn)
                    f = fails(prop, oracle, cand, budget)
                    if f is not None:
                        best, best_f = cand, f
    # simplify: solve arguments
    for idx, op in enumerate(best["ops"]):
        if op[0] == "solve" and budget.ok():
            for key in ("x0", "tol", "maxiter", "use_hessian"):
                if key in best["ops"][idx][2] and budget.ok():
                    # (through JSON: generated cases may hold one argument dict in two ops)
                    cand = json.loads(json.dumps(best))
                    del cand["ops"][idx][2][key]
                    f = fails(prop, oracle, cand, budget)
                    if f is not None:
                        best, best_f = cand, f
    # prune unused pool entries
    if budget.ok():
        cand = prune_pools(best)
        f = fails(prop, oracle, cand, budget)
        if f is not None:
            best, best_f = cand, f
    return best, best_f, max_execs - budget.left


def write_replay(path, prop, seed, case, finding, extra=None):
    doc = {
        "version": 1,
        "property": prop,
        "seed": seed,
        "knobs": case["knobs"],
        "ops": case["ops"],
        "violation": {"oracle": finding["oracle"], "i": finding["i"], "detail": finding["detail"]},
    }
    if extra:
        doc.update(extra)
    with open(path, "w") as f:
        json.dump(doc, f, indent=1, sort_keys=True)
    return doc
