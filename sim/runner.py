"""Run one case (knobs + explicit op list) for one property and judge it.

A *case* is fully explicit JSON: {"knobs": {...}, "ops": [...]}.  `judge_case`
executes it in a fork of the pristine current process, evaluates the
property's oracles (fetching pristine-process references where needed) and
returns findings + reach statistics.
"""

from __future__ import annotations

import json

from . import oracle as O
from . import zygote

RUN_TIMEOUT = 90.0


class HarnessFailure(Exception):
    def __init__(self, kind, detail=""):
        super().__init__(f"{kind}: {detail}")
        self.kind = kind
        self.detail = detail


def execute(ops, knobs, pac=False, timeout=RUN_TIMEOUT):
    st, res = zygote.call((ops, knobs, pac), timeout)
    if st == "ok":
        return res
    if st == "timeout":
        raise HarnessFailure("timeout", f"run exceeded {timeout}s")
    if st == "error":
        kind = "seam-bypassed" if "seam-bypassed" in res else "run-error"
        raise HarnessFailure(kind, res)
    raise HarnessFailure("crash", str(res))


class RefCache:
    """References are computed by real optyx code in a pristine fork, memoised on the request."""

    # process-wide memo (per worker): a reference is a pure function of (ops, knobs, code under test)
    GLOBAL = {}
    GLOBAL_MAX = 4000

    def __init__(self, knobs):
        self.knobs = knobs
        self.kkey = json.dumps(knobs, sort_keys=True)
        self.forks = 0
        self.hits = 0

    def get(self, req):
        key = self.kkey + json.dumps(req, sort_keys=True)
        g = RefCache.GLOBAL
        if key not in g:
            self.forks += 1
            res = execute(req["ops"], self.knobs, req.get("pac", False))
            if len(g) >= RefCache.GLOBAL_MAX:
                g.clear()
            g[key] = res["log"][-1]
        else:
            self.hits += 1
        return g[key]


# --------------------------------------------------------------------------
# reach measurement helpers
# --------------------------------------------------------------------------


def _abs_key(a):
    return None if a is None else tuple(a)


class Reach:
    def __init__(self):
        self.states = set()
        self.transitions = set()
        self.nontrivial = set()
        self.faults = {}
        self.probes = {}
        self.judged = 0
        self.sim_seconds = 0.0
        self.seam_events = 0
        self.real_solver_calls = 0
        self.stub_solver_calls = 0

    def probe(self, name, n=1):
        self.probes[name] = self.probes.get(name, 0) + n

    def fault(self, name, n=1):
        self.faults[name] = self.faults.get(name, 0) + n

    def dump(self):
        return {
            "states": sorted(map(repr, self.states)),
            "transitions": sorted(map(repr, self.transitions)),
            "nontrivial": sorted(map(repr, self.nontrivial)),
            "faults": self.faults,
            "probes": self.probes,
            "judged": self.judged,
            "sim_seconds": self.sim_seconds,
            "seam_events": self.seam_events,
            "real_solver_calls": self.real_solver_calls,
            "stub_solver_calls": self.stub_solver_calls,
        }


def _walk_common(res, reach):
    """State / transition / fault accounting shared by all machines."""
    prev = {}
    last_route = {}
    for rec in res["log"]:
        mid = rec.get("mid")
        for f in rec.get("fired", []):
            if "fault" in f:
                reach.fault(f"raise@{f['fault']}:{f.get('kind') or '-'}:{f['exc']}")
                if f["fault"] == "cbi":
                    reach.probe(f"inside-callback-fault-in:{f.get('where')}")
            elif "peer" in f:
                reach.fault(f"{f['peer']}:{f.get('cls') or f.get('k')}")
                if f["peer"] == "scripted" and f.get("xkind") != "real":
                    reach.stub_solver_calls += 1
        for e in rec.get("events", []):
            reach.real_solver_calls += 1
        if "abs" in rec:
            a = _abs_key(rec["abs"])
            reach.states.add(a)
            reach.transitions.add((prev.get(mid), rec["op"], a))
            prev[mid] = a
        sig = O.seam_sig(rec)
        if rec["op"] == "solve" and sig:
            route = sig[0][0]
            if mid in last_route and last_route[mid] != route:
                reach.probe(f"route-switch:{last_route[mid]}->{route}")
            last_route[mid] = route
            if len(sig) > 1:
                reach.probe("slsqp-retry-taken")
        obs = rec.get("obs") or {}
        mon = rec.get("mon") or {}
        if mon.get("canary_redelivered"):
            reach.probe(f"once-per-location-warning-memory-reset-during:{rec['op']}:by-{'optyx' if mon.get('filters_mutated_by_optyx') else 'scipy-or-numpy'}")
        if obs.get("status") == "failed":
            reach.probe("status-FAILED")
        if obs.get("exc") == "KeyboardInterrupt":
            reach.probe("KeyboardInterrupt-propagated")
    reach.sim_seconds += float(res.get("clock") or 0.0)
    reach.seam_events += int(res.get("seq") or 0)
    ci = res.get("cache_info") or {}
    for name, (hits, misses, maxsize, cur) in ci.items():
        if maxsize is not None and cur >= maxsize:
            reach.probe(f"lru-full:{name}")


def _finding(prop, oracle, rec, detail, extra=None):
    f = {"property": prop, "oracle": oracle, "i": rec["i"], "detail": detail}
    if extra:
        f.update(extra)
    return f


# --------------------------------------------------------------------------
# judges
# --------------------------------------------------------------------------


def judge_history(prop, case, res, reach, refs, what=("events", "obs", "warn"), r2=False, skip_planned=False):
    """Every observation equals the same observation on a from-scratch build of
    the current logical state in a pristine process (C12 R1 / C13 / C14)."""
    findings = []
    for rec in res["log"]:
        if "ref" not in rec or (skip_planned and rec.get("planned")):
            continue
        ref_rec = refs.get(rec["ref"])
        reach.judged += 1
        obs = rec.get("obs") or {}
        nt = (rec["op"], (rec.get("events") or [{}])[0].get("method"), obs.get("status") or obs.get("exc") or "val", _abs_key(rec.get("abs")))
        reach.nontrivial.add(nt)
        c = O.compare_with_ref(rec, ref_rec, what)
        if c:
            findings.append(_finding(prop, f"history-vs-fresh/{rec['op']}/{c[0]}", rec, c[1]))
        if r2 and "ref2" in rec:
            ref2 = refs.get(rec["ref2"])
            o1, o2 = rec.get("obs") or {}, ref2.get("obs") or {}
            if rec["op"] == "solve":
                # literal statement (parameters replaced by Constants): other code path, so
                # only optimal-vs-optimal objective values, at the documented solver accuracy
                e1 = (rec.get("events") or [{}])[0].get("seam")
                e2 = (ref2.get("events") or [{}])[0].get("seam")
                if e1 == "linprog" and e2 == "linprog":
                    # both exact LP solves: the parametric model must give the constants-model's answer
                    reach.probe("r2-lp-solve-compared")
                    d = O.diff({k: o1.get(k) for k in ("status", "obj")}, {k: o2.get(k) for k in ("status", "obj")}, "", rtol=1e-6)
                    if d:
                        findings.append(_finding(prop, "vs-constants/lp-solve", rec, d))
                elif o1.get("status") == "optimal" and o2.get("status") == "optimal" and rec["op"] == "solve" and rec.get("r2_convex"):
                    reach.probe("r2-solve-compared")
                    if not O.num_close(o1["obj"], o2["obj"], O.R2_SOLVE_RTOL):
                        findings.append(_finding(prop, "vs-constants/solve/obj", rec, f"obj {o1['obj']!r} vs constants-model {o2['obj']!r}"))
            else:
                # (requests that deliberately lack a variable carry no ref2: with Constants the
                # simplifiers may legitimately remove the term -- 0 * x -- that needs it)
                d = O.diff(o1, o2, "", rtol=1e-9)
                if d:
                    findings.append(_finding(prop, f"vs-constants/{rec['op']}/{O.first_field(d) or 'obs'}", rec, d))
    return findings


def judge_monitor(prop, res):
    """Process-global hooks as installed after every op."""
    out = []
    prev_dg = None
    for rec in res["log"]:
        m = rec["mon"]
        dg = m.get("scipy_dg_entries")
        if (prev_dg is not None and dg is not None and dg != prev_dg
                and not m.get("filters_mutated_by_optyx") and not m.get("filters_mutated_by_other")):
            # SciPy's record of what it has shown the application differs after this op, and nobody
            # touched the warning filters during it (a filter change makes Python drop whole
            # registries lazily, which would not be optyx's doing): an entry was removed by hand,
            # or one recorded while optyx swallowed the warning was left behind
            kind = "erased" if dg < prev_dg else "left-behind"
            out.append(_finding(prop, f"scipy-warning-memory-{kind}", rec, f"{prev_dg} -> {dg} 'delta_grad' entries in SciPy's once-per-location registries"))
        prev_dg = dg
        if not m["showwarning_ok"]:
            out.append(_finding(prop, "showwarning-not-restored", rec, "warnings.showwarning is not the hook installed before the call"))
        if not m["reclimit_ok"]:
            out.append(_finding(prop, "recursionlimit-not-restored", rec, f"sys.getrecursionlimit()={m['reclimit']}"))
        if not m.get("filters_ok", True):
            out.append(_finding(prop, "warning-filters-not-restored", rec, "warnings.filters is not the list (or not the entries) the application installed before the call"))
    return out


def judge_case(prop, case):
    """-> {"findings": [...], "reach": {...}, "ops": n}.  Raises HarnessFailure."""
    from . import judges

    return judges.JUDGES[prop](case)
